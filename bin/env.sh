#!/bin/sh
# Bootstrap the overlay venv (idempotent, offline).  /venv has the repo's deps,
# the overlay adds z3-solver from the offline wheelhouse.
set -e
V=/verif/.venv
if [ ! -x "$V/bin/python" ] || ! "$V/bin/python" -c "import z3, antlr4, numpy, sympy" >/dev/null 2>&1; then
  rm -rf "$V"
  /venv/bin/python -m venv "$V" >/dev/null
  SP="$V/lib/python3.12/site-packages"
  printf '/venv/lib/python3.12/site-packages\n/repo/blackbird_python\n' > "$SP/base.pth"
  PIP_NO_INDEX=1 "$V/bin/pip" install -q --no-index --find-links /opt/veriftools/wheels z3-solver jsonschema >/dev/null 2>&1 \
    || PIP_NO_INDEX=1 "$V/bin/pip" install -q --no-index --find-links /opt/veriftools/wheels z3-solver >/dev/null
fi
"$V/bin/python" -c "import z3, antlr4, numpy, sympy, blackbird" 
