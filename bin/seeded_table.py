#!/usr/bin/env python3
"""prints the markdown table of seeded changes (from seeded/*/meta.json + first heading lines of NOTE.md)"""
import glob, json, os, re
rows = []
for d in sorted(glob.glob('/verif/seeded/*')):
    m = json.load(open(os.path.join(d, 'meta.json')))
    diff = open(os.path.join(d, 'patch.diff')).read()
    files = sorted(set(re.findall(r'^\+\+\+ b/(\S+)', diff, re.M)))
    files = [os.path.basename(f) for f in files]
    first = m.get('detected_before_strengthening')
    rows.append((m['seed'], m['property'], ', '.join(files), 'yes' if m.get('confirmed') else 'NO', ', '.join(first) if first else '-', ', '.join(m['detected_by']) or '-'))
print('| seed | property | files changed | confirmed (tests pass, demo fails/passes) | detected when written | detected now |')
print('|---|---|---|---|---|---|')
for r in rows:
    print('| %s | %s | %s | %s | %s | %s |' % r)
