#!/usr/bin/env python3
"""Regression suite for the checks: every seeded change must still be detected by the checks recorded in its meta.json
(and the unchanged tree must pass).  Works in a scratch worktree of /repo (created on demand), never in /repo itself.
usage: seed_regress.py [seed-name ...]"""
import glob, json, os, subprocess, sys, time
ROOT = os.path.dirname(os.path.dirname(os.path.abspath(__file__)))
EVAL = os.environ.get("SEED_EVAL_REPO", "/tmp/evalrepo")


def sh(cmd, **kw):
    p = subprocess.run(cmd, shell=True, capture_output=True, text=True, **kw)
    return p.returncode, p.stdout + p.stderr


def main():
    if not os.path.isdir(EVAL):
        rc, o = sh("git -C /repo worktree add -q --detach %s HEAD" % EVAL)
        if rc:
            print(o); return 2
    sh("git -C %s checkout -q --detach %s" % (EVAL, subprocess.check_output(["git", "-C", "/repo", "rev-parse", "HEAD"]).decode().strip()))
    sh("git -C %s checkout -- ." % EVAL)
    env = dict(os.environ, BBVERIF_REPO=EVAL, PYTHONPATH=os.path.join(EVAL, "blackbird_python"))
    names = sys.argv[1:] or [os.path.basename(d) for d in sorted(glob.glob(os.path.join(ROOT, "seeded", "*")))]
    lost = []
    for n in names:
        d = os.path.join(ROOT, "seeded", n)
        m = json.load(open(os.path.join(d, "meta.json")))
        rc, o = sh("git -C %s apply %s" % (EVAL, os.path.join(d, "patch.diff")))
        if rc:
            print(n, "PATCH DOES NOT APPLY", o.strip()[:100]); lost.append(n); continue
        try:
            ok = False
            res = []
            for c in m["detected_by"]:
                t0 = time.time()
                rc, o = sh("sh bin/check %s quick" % c, cwd=ROOT, env=env, timeout=3600)
                res.append("%s:exit%d(%.0fs)" % (c, rc, time.time() - t0))
                if rc == 1 and "VIOLATION" in o:
                    ok = True
                    break
            print(n, "detected" if ok else "LOST", " ".join(res), flush=True)
            if not ok:
                lost.append(n)
        finally:
            sh("git -C %s checkout -- ." % EVAL)
    print("seeds: %d, lost: %d %s" % (len(names), len(lost), lost))
    return 1 if lost else 0


if __name__ == "__main__":
    sys.exit(main())
