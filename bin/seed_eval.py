#!/usr/bin/env python3
"""Evaluate a seeded change produced in a scratch worktree.

usage: seed_eval.py <worktree> <seed-name> <property-id> [more check ids...]
  1. takes `git diff` of the worktree (library files only), confirms the 467 baseline tests still pass with it,
     demo.py fails with the change and passes without (in the worktree);
  2. stores patch.diff / demo.py / NOTE.md under /verif/seeded/<seed-name>/;
  3. applies the patch to /repo, runs the named checks (quick), reverts /repo, and records in meta.json which checks
     raised a VIOLATION.
"""
import json
import os
import shutil
import subprocess
import sys
import time

VERIF = "/verif"


def sh(cmd, cwd=None, env=None, timeout=3600):
    p = subprocess.run(cmd, shell=True, cwd=cwd, env=env, capture_output=True, text=True, timeout=timeout)
    return p.returncode, (p.stdout + p.stderr)


def main():
    """round-2 form:  seed_eval.py --patch <worktree> <X> <seed-name> <property-id> [more checks]
    (the worktree is clean and holds patchX.diff / demoX.py)"""
    patch_mode = sys.argv[1] == "--patch"
    if patch_mode:
        wt, X, name, pid = sys.argv[2], sys.argv[3], sys.argv[4], sys.argv[5]
        checks = [pid] + sys.argv[6:]
    else:
        wt, name, pid = sys.argv[1], sys.argv[2], sys.argv[3]
        checks = [pid] + sys.argv[4:]
    out = os.path.join(VERIF, "seeded", name)
    os.makedirs(out, exist_ok=True)
    demo = "demo.py"
    if patch_mode:
        demo = "demo%s.py" % X
        sh("git checkout -- .", cwd=wt)
        rc, o = sh("git apply patch%s.diff" % X, cwd=wt)
        if rc != 0:
            print("patch%s.diff does not apply in the worktree: %s" % (X, o))
            return 2
    rc, diff = sh("git diff -- blackbird_python/blackbird src blackbird_cpp ':!blackbird_python/blackbird/tests'", cwd=wt)
    if not diff.strip():
        print("no diff in", wt)
        return 2
    open(os.path.join(out, "patch.diff"), "w").write(diff)
    for f in (demo, "NOTE.md"):
        if os.path.exists(os.path.join(wt, f)):
            shutil.copy(os.path.join(wt, f), os.path.join(out, "demo.py" if f == demo else f))
    env = dict(os.environ, PYTHONPATH=os.path.join(wt, "blackbird_python"))
    meta = {"seed": name, "property": pid, "worktree": wt}
    rc, o = sh("python3 %s/tools/baseline.py %s" % (os.path.dirname(wt.rstrip("/")), wt))
    meta["baseline_tests_pass_with_change"] = (rc == 0)
    meta["baseline_output"] = o.strip().split("\n")[0]
    rc1, o1 = sh("/venv/bin/python %s" % demo, cwd=wt, env=env, timeout=900)
    # (no `git stash`: the stash is shared between all worktrees of a repository)
    sh("git apply -R %s" % os.path.join(out, "patch.diff"), cwd=wt)
    rc0, o0 = sh("/venv/bin/python %s" % demo, cwd=wt, env=env, timeout=900)
    if not patch_mode:
        sh("git apply %s" % os.path.join(out, "patch.diff"), cwd=wt)
    meta["demo_exit_with_change"] = rc1
    meta["demo_exit_without_change"] = rc0
    meta["demo_output_with_change"] = o1[-600:]
    ok = meta["baseline_tests_pass_with_change"] and rc1 != 0 and rc0 == 0
    meta["confirmed"] = ok
    print("baseline ok:", meta["baseline_tests_pass_with_change"], " demo with change:", rc1, " without:", rc0)
    # run the checks against the repository with the patch applied: /repo itself, or (SEED_EVAL_REPO) a scratch worktree of it,
    # in which case the checks are pointed there through BBVERIF_REPO + PYTHONPATH
    repo = os.environ.get("SEED_EVAL_REPO", "/repo")
    cenv = dict(os.environ)
    if repo != "/repo":
        cenv["BBVERIF_REPO"] = repo
        cenv["PYTHONPATH"] = os.path.join(repo, "blackbird_python")
    meta["evaluated_in"] = repo
    rc, o = sh("git -C %s status --porcelain" % repo)
    if o.strip():
        print(repo, "not clean, refusing")
        return 2
    rc, o = sh("git -C %s apply %s" % (repo, os.path.join(out, "patch.diff")))
    if rc != 0 and os.path.exists(os.path.join(wt, "rebased.diff")):
        # the change was written against an earlier HEAD of /repo (a fix: commit touched the same lines since): a version re-based
        # by hand is evaluated, the original is kept next to it; the demonstration must fail with the re-based change as well
        shutil.copy(os.path.join(out, "patch.diff"), os.path.join(out, "patch.orig.diff"))
        shutil.copy(os.path.join(wt, "rebased.diff"), os.path.join(out, "patch.diff"))
        rc, o = sh("git -C %s apply %s" % (repo, os.path.join(out, "patch.diff")))
        if rc == 0:
            rcd, od = sh("/venv/bin/python %s" % os.path.join(out, "demo.py"), cwd=repo, env=cenv if repo != "/repo" else env, timeout=900)
            meta["rebased"] = True
            meta["demo_exit_with_rebased_change"] = rcd
            print("re-based patch applies; demo with re-based change:", rcd)
            if rcd == 0:
                sh("git -C %s checkout -- ." % repo)
                print("the demonstration passes with the re-based change: not kept")
                return 2
    if rc != 0:
        print("patch does not apply to", repo, ":", o)
        return 2
    results = {}
    try:
        for c in checks:
            t0 = time.time()
            rc, o = sh("sh bin/check %s quick" % c, cwd=VERIF, timeout=3600, env=cenv)
            lines = [l for l in o.split("\n") if l.startswith(("VIOLATION", "KNOWN", "HARNESS", c + " "))]
            results[c] = {"exit": rc, "wall_s": round(time.time() - t0, 1), "summary": lines[-1] if lines else "", "violations": [l for l in lines if l.startswith("VIOLATION")][:3]}
            # keep the first violation text
            vi = o.find("VIOLATION")
            if vi >= 0:
                results[c]["first_violation_text"] = o[vi:vi + 900]
            print(c, "exit", rc, results[c]["summary"])
    finally:
        sh("git -C %s checkout -- ." % repo)
    meta["checks_run_quick"] = results
    meta["detected_by"] = [c for c, r in results.items() if r["exit"] == 1]
    json.dump(meta, open(os.path.join(out, "meta.json"), "w"), indent=1)
    print("detected by:", meta["detected_by"])
    return 0


if __name__ == "__main__":
    sys.exit(main())
