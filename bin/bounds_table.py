#!/usr/bin/env python3
"""prints the markdown table 'bounds actually used' from evidence files: quick from /verif/evidence, thorough from the
evidence directory given as argument (e.g. the snapshot of a `vp run sh bin/thorough_all.sh`)"""
import json, os, sys
q = "/verif/evidence"
t = sys.argv[1] if len(sys.argv) > 1 else None


def row(d, pid):
    try:
        e = json.load(open(os.path.join(d, pid + ".json")))
    except Exception:
        return None
    c = e["coverage"]
    qs = c.get("queries", {})
    return e["tier"], c.get("obligations"), sum(qs.values()), round(e.get("wall_s", 0)), c.get("bounds") or {}


print("| id | quick: cases / solver queries / wall s | thorough: cases / solver queries / wall s | stated bounds (quick; thorough where it differs) |")
print("|---|---|---|---|")
for i in range(1, 20):
    pid = "C%02d" % i
    a = row(q, pid)
    b = row(t, pid) if t else None
    ba = "; ".join("%s: %s" % (k, v) for k, v in (a[4] if a else {}).items())
    bb = "; ".join("%s: %s" % (k, v) for k, v in (b[4] if b else {}).items() if not a or str(a[4].get(k)) != str(v))
    print("| %s | %s | %s | %s%s |" % (pid, "%s / %s / %s" % a[1:4] if a else "-", "%s / %s / %s" % b[1:4] if b and b[0] == "thorough" else "-",
                                   ba, (" **thorough:** " + bb) if bb else ""))
