#!/bin/sh
# usage: seed_try.sh <seed-name> <check-id> [tier]   - run one check against a seeded change in the scratch worktree (never /repo)
E=${SEED_EVAL_REPO:-/tmp/evalrepo}
cd "$(dirname "$0")/.."
[ -d "$E" ] || git -C /repo worktree add -q --detach "$E" HEAD
git -C "$E" checkout -q -- . && git -C "$E" apply "$PWD/seeded/$1/patch.diff" || exit 2
BBVERIF_REPO=$E PYTHONPATH=$E/blackbird_python sh bin/check "$2" "${3:-quick}" 2>&1 | grep -v -i conda | grep -E "^(C[0-9]+ |VIOLATION|KNOWN|HARNESS|Traceback|  File|[A-Za-z]*Error)" | cut -c1-400
git -C "$E" checkout -q -- .
