#!/bin/sh
# re-run every registered quick check on the current tree so that the committed evidence describes a clean quick run
cd /verif
git -C /repo diff --quiet || { echo "refusing: /repo has uncommitted changes"; exit 1; }
for id in $(python3 -c "import json;print(' '.join(c['property_id'] for c in json.load(open('MANIFEST.json'))['checks']))"); do
  VERIF_SEED=1 sh bin/check $id quick 2>&1 | grep -v conda | grep -E "^(C[0-9]+ |VIOLATION|KNOWN|HARNESS)"
done
