#!/usr/bin/env python3
"""runs the repository's test suite and compares the passing set with /root/.vp/BASELINE.json stable_pass"""
import json, subprocess, sys, tempfile, os
import xml.etree.ElementTree as ET
base = json.load(open('/root/.vp/BASELINE.json'))
want = set(base['stable_pass'])
f = tempfile.mktemp(suffix='.xml')
subprocess.run(base['cmd'].replace('<file>', f), shell=True, stdout=subprocess.DEVNULL, stderr=subprocess.DEVNULL)
got = set()
for tc in ET.parse(f).getroot().iter('testcase'):
    if not any(ch.tag in ('failure', 'error', 'skipped') for ch in tc):
        got.add(tc.get('classname') + '::' + tc.get('name'))
os.unlink(f)
missing = sorted(want - got)
print('baseline stable_pass: %d, passing now: %d, missing: %d' % (len(want), len(got), len(missing)))
for m in missing[:20]:
    print('  MISSING', m)
sys.exit(1 if missing else 0)
