#!/usr/bin/env python3
"""Regenerates MANIFEST.json from the table below (single source of truth for the registered checks)."""
import json
import os

ROOT = os.path.dirname(os.path.dirname(os.path.abspath(__file__)))

E1 = "atnsmt"
E2 = "pysym"

CHECKS = {
    "C14": dict(
        engine=E1, category="translation_validation", design="§3 C14",
        technique="SMT (z3): bounded NFA/CFG language equivalence between the shipped serialized ATNs and automata built from blackbird.g4, over symbolic characters / token sequences",
        text="Bounded language equivalence decided by z3 between every shipped automaton (Python, C++, .interp) and an independent reading of "
             "blackbird.g4: per lexer rule for all strings <= M code points, first-token function, per parser rule RHS <= K symbols, CFG-level "
             "from `expression` and `start` for all token sequences <= N; artefact identity by direct comparison. The generated parser *code* (not encodable) is run on every sentence "
             "the solver enumerates (AllSAT on the grammar's CFG encoding) in three regions around the decisions that need more than one token of lookahead, on RHS-variant expansions and on mutants. A generated artefact is a "
             "translation of the grammar, so translation validation of the artefact against its source is the fitting level.",
        note="Trusted: antlr4 runtime semantics of an ATN, the g4-subset reader (validated each run on solver witnesses, the repo corpus and "
             "solver-generated sentences/mutants against the real lexer/parser), z3. Bounded: nothing is claimed beyond M/K/N. C++ runtime not exercised.",
    ),
}

E2NOTE = ("Trusted: CPython, NumPy (result types and exceptions are observed from the real library on typed exemplars; + - * / idealised to exact "
          "arithmetic: floats are reals), SymPy, antlr4 runtime, z3, the reference semantics in bbverif/ref. Stubs listed in bbverif/pysym/stubs.py. "
          "Every sat answer is replayed concretely on the unpatched package in a pristine interpreter before it is reported. Bounded: see evidence.bounds.")

CHECKS["C03"] = dict(
    engine=E2, category="model_checking", design="§3 C03",
    technique="symbolic execution of the real parser+evaluator on z3-term proxies (own engine), z3 decides impl != Pratt-reference per path; bounded automata inclusion (z3) for literal forms",
    text="Every expression skeleton of the bounded generator (<=3 operators, brackets, unary signs, 15 functions, pi, variables, A[k]) is parsed by the real "
         "parser and evaluated by the real _expression on proxies; z3 decides for all leaf values at once whether value or result kind can differ from the "
         "reference (precedence per the property). Bounded symbolic model checking of the evaluator; not a proof.",
    note=E2NOTE,
)
CHECKS["C02"] = dict(
    engine=E2, category="model_checking", design="§3 C02",
    technique="symbolic execution of blackbird.loads on skeleton scripts with z3-term proxies; z3 decides impl program != reference-interpreter program per path",
    text="Skeleton scripts (metadata variants x sequences of statement variants) are loaded by the real code with every literal, mode and option value symbolic; "
         "the loaded program is compared with the denotation given by an independent reference interpreter, for all values at once, by z3. Bounded.",
    note=E2NOTE,
)

CHECKS["C05"] = dict(
    engine=E2, category="model_checking", design="§3 C05",
    technique="symbolic execution of blackbird.loads on declaration skeletons (proxies, symbolic declared shapes and indices); z3 decides placement/type/shape acceptance vs the reference",
    text="Declaration skeletons (scalars: type x initialiser; arrays: dtype x row lengths incl. ragged x shape declaration x parameter positions x use) are loaded "
         "by the real code with all element values, the declared shape integers and the index symbolic; z3 decides element placement, element kind, and "
         "acceptance/rejection for all values at once against the reference interpreter. Bounded (<=3x3). Integers at and beyond the 64-bit edge are native cases with their own oracle (kept exactly or refused).",
    note=E2NOTE,
)
CHECKS["C06"] = dict(
    engine=E2, category="model_checking", design="§3 C06",
    technique="symbolic execution of blackbird.loads on loop skeletons with symbolic range bounds (trip-count forks) and list values; z3 decides impl vs unrolled reference per path x reference case",
    text="Loop skeletons with symbolic range bounds a:b:c (trip count forked up to K on both sides independently), value lists in three bracket styles with "
         "symbolic values, bodies of 1-3 statements, statements before/after and use of the loop variable after the loop; compared with the reference "
         "unrolling for all values by z3; booleans listed in int / float loops must be refused or bound as the converted number. Bounded by K and the generator.",
    note=E2NOTE,
)

CHECKS["C11"] = dict(
    engine=E2, category="model_checking", design="§3 C11",
    technique="symbolic execution of blackbird.loads on faulty skeletons (fault values symbolic); z3 decides whether any value lets a program be returned / the wrong exception surface",
    text="One fault (undefined name, reserved name, non-integer mode, complex into int/float, loop value of the wrong type) is injected at every position among "
         "valid statements and in every syntactic slot; fault values are solver variables, so 'no program is returned' is decided for every value (integral floats, "
         "zero imaginary parts, ...). Bounded by the generator.",
    note=E2NOTE,
)

CHECKS["C04"] = dict(
    engine=E2, category="model_checking", design="§3 C04",
    technique="symbolic execution of loads + BlackbirdProgram.__call__ with symbolic parameter values (lambdify'd code runs on z3-term proxies); z3 decides instance != reference run with the values substituted",
    text="Template skeletons (parameters in positional/keyword arguments, scalar initialisers, bare parameters at array positions, whole-array parameters, loop "
         "bodies, functions of parameters) are loaded and instantiated by the real code with symbolic parameter values; z3 decides for all values whether the instance "
         "differs from the reference interpreter run on the text with the values substituted; parameter set, is_template and missing-value refusal are asserted on every path. "
         "Each holding skeleton is then re-run natively with the values handed over as other Python / NumPy types and array layouts (int, numpy int64/float32/float64, "
         "Fortran-ordered / transposed / reversed ndarrays, tuples), and with the template's parameter arrays replaced by Fortran-ordered copies; a systematic family of expression shapes is shared with C01.",
    note=E2NOTE,
)

CHECKS["C12"] = dict(
    engine=E2, category="model_checking", design="§3 C12",
    technique="symbolic execution of blackbird.loads from an arbitrary (havoc) pre-state of the process-wide tables vs from empty tables; z3 decides outcome inequality; two-load history replay",
    text="One inductive step instead of call histories: _VAR/_PARAMS are havoc tables (any name may be left behind with a symbolic value of forked type until "
         "the code clears them); the outcome of each skeleton script on every such path is compared with its outcome from empty tables by z3; a differing "
         "pre-state is replayed as a real failed-load-then-load history (several kinds of failing first loads). Twin loads: a twin of the script (other symbolic values, "
         "optionally failing, optionally every concrete literal shifted by one) and then the script are loaded in ONE explored path and z3 decides, for all values of both, that the "
         "second outcome equals the outcome of the script alone - state nobody declared is covered without naming it; each pair is also run natively in forked interpreters. "
         "Concrete file histories (nested includes rewritten, preserved / backwards mtimes, same relative path after chdir). Plus an identity walk for shared mutable state and an AST scan for other module state.",
    note=E2NOTE,
)

CHECKS["C16"] = dict(
    engine=E2, category="model_checking", design="§3 C16",
    technique="symbolic execution of the real to_DiGraph on API-built programs whose mode/register numbers are z3 ints (constant-hash proxies fork set/dict lookups on equality); z3 decides reachability vs reference per path",
    text="All mode and register numbers are solver variables; the real set/dict operations of to_DiGraph fork on equality, so exactly the feasible equality patterns are "
         "explored; on each path z3 decides whether the concrete graph's reachability can differ from the reference relation (chains of successive sharing) for any wire "
         "assignment consistent with the path; node set, attributes, edge direction and acyclicity asserted on every path. Bounded (n<=3/5 operations, <=6/8 wires).",
    note=E2NOTE,
)

CHECKS["C13"] = dict(
    engine=E2, category="model_checking", design="§3 C13",
    technique="symbolic execution of loads + each read-only operation (dumps, template call, to_DiGraph, attribute reads) with before/after snapshots as z3 terms; z3 decides snapshot inequality per path; concrete identity/mutation walk for instance independence",
    text="One inductive step per operation on a family of program skeletons with symbolic values: content snapshot (structure, key sets, z3 terms) and dumps() text "
         "before and after are compared on every path; match_template cases and the independence walk (mutable-container identity sets of template and instances, "
         "mutation of every container of one instance) are concrete-structure runs and reported as such.",
    note=E2NOTE,
)

CHECKS["C09"] = dict(
    engine=E2, category="model_checking", design="§3 C09",
    technique="symbolic execution of serialize() and of loads() on its output for API-built programs whose numeric values are signed z3 variables in typed proxies; z3 decides re-loaded != original; bounded automata query (z3) for the lexeme lemma",
    text="Programs are built through the API from proxies of every supported kind and NumPy/Python type tag in positional, keyword, mode and option position; the real "
         "serialize() prints them (placeholder lexemes, sign forks), the real loads() re-parses the text, and z3 decides for all values whether the re-loaded program "
         "differs. The lexeme lemma (every printed int/float/complex text is one token of that kind, strings <= M) is a bounded automata query; special floats "
         "(negative zero, subnormal, 1e+-300), arrays with two-digit dimensions and non-contiguous array views are concrete instantiations.",
    note=E2NOTE,
)

CHECKS["C01"] = dict(
    engine=E2, category="model_checking", design="§3 C01",
    technique="symbolic execution of loads -> serialize -> loads (two generations) on skeleton scripts with z3-term proxies; z3 decides re-loaded != original per path; bounded automata query (z3) for the lexeme lemma",
    text="Valid skeleton scripts (C02/C05/C06 generator families, templates with adversarial parameter names, measured-register expressions, arrays, tdm programs) are "
         "loaded, serialised and re-loaded twice by the real code with every literal symbolic; z3 decides for all values whether name, version, target, type, "
         "parameters or the operation sequence can differ; symbolic arguments are compared by evaluation on fresh symbol values. Lexeme lemma as in C09.",
    note=E2NOTE,
)

CHECKS["C15"] = dict(
    engine=E2, category="model_checking", design="§3 C15",
    technique="symbolic execution of loads (and loads -> serialize -> loads) on tdm skeleton scripts with z3-term proxies vs the reference interpreter's by-name semantics; concrete cases for string arguments",
    text="tdm skeletons (p-arrays of each dtype and several names, ordinary scalars/arrays, template parameters, loops, positional and keyword use, non-tdm controls) are "
         "loaded by the real code with all elements symbolic and compared by z3 with the reference (by-name delivery, data kept under the name, other variables by value, "
         "parameters, is_template), then put through the two-generation round trip; string arguments of API-built tdm programs are concrete-structure cases.",
    note=E2NOTE,
)

CHECKS["C08"] = dict(
    engine=E2, category="model_checking", design="§3 C08",
    technique="symbolic execution of loads on scripts with register expressions: measurement values are z3 reals fed to the lambdify'd transform, symbol-set iteration orders are forked by the order stub; z3 decides transform value != written formula per path",
    text="Scripts with register expressions (1-3 registers, positional/keyword) are loaded by the real code; on every path (one per iteration order of the symbol sets) the "
         "listed registers must be exactly the written ones and the transform's function applied to symbolic measurement values in the listed order must equal the "
         "reference value of the written expression for all values away from poles (z3). Bounded by the expression families.",
    note=E2NOTE,
)

CHECKS["C19"] = dict(
    engine=E2, category="model_checking", design="§3 C19",
    technique="symbolic execution of loads/dumps/instantiate with the iteration order of every string-hashed set forked as a symbolic permutation (order stub); z3 decides outcome inequality between order paths; PYTHONHASHSEED sweep as replay",
    text="The iteration order of every set of symbols / parameter names met by the code under test is a symbolic permutation chosen by the engine; content snapshot "
         "(modulo the documented freedom of register order), dumps() text and the text of an instance must agree on all order paths for all literal values (z3). "
         "A differing pair of orders is reported only after a sweep over PYTHONHASHSEED values reproduces a differing digest. Besides parsed scripts: programs assembled "
         "through the API (object arrays mixing parameters and numbers) and include trees with same-named files in several directories; every holding case is also swept over seeds 0..7 natively.",
    note=E2NOTE,
)

CHECKS["C07"] = dict(
    engine=E2, category="model_checking", design="§3 C07",
    technique="symbolic execution of blackbird.load on file layouts with includes: the included programs' modes, call-site modes and bound keyword values are z3 variables; z3 decides impl != reference inlining (modes in increasing order, forked) per path x reference case",
    text="File layouts (single/repeated/nested includes, two subroutines, templates bound by keyword, mismatched calls) are written to a scratch directory and loaded by the real "
         "code with every mode number and argument value symbolic and the working directory set elsewhere; z3 decides for all mode numberings whether the loaded program differs "
         "from the reference inlining; replays steer models towards mode sets whose CPython set order differs from increasing order. Path resolution is observed on these layouts, not solved.",
    note=E2NOTE,
)

CHECKS["C18"] = dict(
    engine=E1, category="model_checking", design="§3 C18",
    technique="SMT (z3): tokenisation chain of the shipped lexer ATN over symbolic characters (blank/comment insertion, newline styles, tab vs 4 spaces) and CFG membership of the shipped parser ATN over symbolic token sequences (blank-line edits); plus symbolic execution of loads on layout variants of skeleton scripts",
    text="Token-stream invariance under the layout edits is decided by z3 on the shipped lexer automaton for all strings <= M characters (one query per length, edit position and "
         "inserted length, each with a reachability twin); blank-line / final-newline edits are decided on the shipped parser automaton for all sentences <= N tokens; "
         "O7: for every lexer rule other than strings, comments and layout z3 decides that no accepted string <= M+3 contains a blank (blanks only separate tokens); "
         "an E2 metamorphic run loads layout variants of the C02 skeletons (and of scripts with code-like strings / token-character comments) with symbolic values and lets z3 compare the contents. "
         "Parse-tree equality modulo layout leaves is not decided beyond that family.",
    note="Trusted: antlr4 runtime semantics of the ATNs (C14), z3; E2 part: as the other E2 checks. Bounded by M, N and the skeleton family.",
)

CHECKS["C10"] = dict(
    engine=E1, category="model_checking", design="§3 C10",
    technique="SMT (z3): bounded CFG/NFA equivalence of the shipped automata with blackbird.g4 (sentence <=> accepted); symbolic execution of the real error listener on harvested parser-error states with symbolic message/offending text (z3 strings) and line/column; concrete replay of single-token mutants through loads",
    text="O1: 'accepted iff sentence' is the bounded language equivalence of C14 (token sequences <= N, lexer strings <= M). O2: the real syntaxError runs on every distinct "
         "parser-error state harvested from single-token mutants of a corpus, with message text, offending text, line and column symbolic; z3 decides on every path that a "
         "BlackbirdSyntaxError with the prefix 'Blackbird SyntaxError (line L:C+1)' is raised. O3: every mutant goes through loads (class and position), concretely. "
         "The lower bound on the reported position (never earlier than the first offending token) is checked on every mutant by a viable-prefix computation. "
         "O3b: an error at nesting depths 10..900 (brackets, signs, powers; in arguments, declarations, array rows) under the interpreter's default recursion limit, concretely.",
    note="Trusted: antlr4 runtime (reports exactly the non-sentences, calls the listener), z3 (sequence theory for O2). Error states are sampled by mutation (values inside a state are symbolic). Bounded by N, M and the corpus.",
)

CHECKS["C17"] = dict(
    engine=E2, category="model_checking", design="§3 C17",
    technique="symbolic execution of BlackbirdProgram.__call__ and match_template on symbolic parameter values (SymPy boundary crossed with stand-in symbols); z3 decides recovered value != instantiation value for every order-preserving permutation; concrete runs for structural edits",
    text="Reduced claim in the real-number model: for each template of the family and EVERY reordering of its instance that preserves the order on each mode, the real "
         "match_template runs on symbolic parameter values and z3 decides that no TemplateError path is feasible and that every recovered value equals the value used for "
         "instantiation; the same for an instance assembled by hand, and for a second match after the arguments of the same object were changed (second set of symbolic values). "
         "Rejection of single structural edits (on fresh copies, on copies taken after a match, on matched copies) is checked on concrete instances. The float-rounding inconsistency after solve() is invisible in this model and stated as a gap.",
    note=E2NOTE + " Additionally trusted here: sympy.solve, networkx DiGraphMatcher.",
)

NOT_YET = "check not built yet in this round (see DESIGN.md §3 for the plan); not claimed"


def main():
    props = [json.loads(l)["id"] for l in open(os.path.join(ROOT, "properties.jsonl")) if l.strip()]
    checks = []
    for pid in props:
        if pid not in CHECKS:
            continue
        c = CHECKS[pid]
        checks.append({
            "property_id": pid,
            "quick_cmd": "sh bin/check %s quick" % pid,
            "thorough_cmd": "sh bin/check %s thorough" % pid,
            "evidence_file": "evidence/%s.json" % pid,
            "replay_cmd_template": ".venv/bin/python {path}",
            "engine": c["engine"],
            "level_claimed": {"category": c["category"], "text": c["text"], "design_ref": c["design"]},
            "level_note": c["note"],
            "technique": c["technique"],
        })
    na = [{"property_id": p, "reason": NA.get(p, NOT_YET)} for p in props if p not in CHECKS]
    man = {
        "version": 1,
        "setup_cmd": "sh bin/env.sh",
        "hooks": {
            "guard": "BLACKBIRD_VERIF",
            "enable": "no source hooks: every stub is installed from outside by shadowing names in the imported modules at run time; "
                      "bin/check exports BLACKBIRD_VERIF=1 for uniformity only",
            "baseline_off_cmd": "cd /repo && /venv/bin/python -m pytest -q -p no:cacheprovider --timeout=900",
            "source_commits": [],
            "add_only": True,
        },
        "engines": [
            {"name": E1, "path": "bbverif/atnsmt", "serves_properties": [p for p in props if CHECKS.get(p, {}).get("engine") == E1],
             "kind_free_text": "shipped ANTLR automata and blackbird.g4 as bounded SMT (bit-vector NFA unrolling, CYK-style CFG encoding), z3"},
            {"name": E2, "path": "bbverif/pysym", "serves_properties": [p for p in props if CHECKS.get(p, {}).get("engine") == E2],
             "kind_free_text": "proxy-based symbolic execution of the real Python functions on z3 terms with DFS over path conditions, reference semantics as oracle, replay gate"},
        ],
        "checks": checks,
        "not_applicable": na,
        "notes": "Solver-based checking of the real code; bounds and trusted base per check in evidence/<id>.json and DESIGN.md.",
    }
    with open(os.path.join(ROOT, "MANIFEST.json"), "w") as fh:
        json.dump(man, fh, indent=1)
        fh.write("\n")


NA = {}

if __name__ == "__main__":
    main()
