#!/usr/bin/env python3
"""usage: finalize_round.py <round-tag>  - for every stored seed of the round: 'detected_before_strengthening' defaults to what the first
evaluation found (seeds re-evaluated through meta_after.py already carry it), and a note says which case it is"""
import glob, json, sys
tag = sys.argv[1]
for p in sorted(glob.glob("/verif/seeded/*-%s/meta.json" % tag)):
    m = json.load(open(p))
    if "detected_before_strengthening" not in m:
        m["detected_before_strengthening"] = list(m.get("detected_by", []))
    if "note" not in m:
        m["note"] = ("detected by the version of the checks that existed when the change was written" if m["detected_before_strengthening"]
                     else "missed by the checks as they were when the change was written; detected after the strengthening described in DESIGN.md section 11")
    json.dump(m, open(p, "w"), indent=1)
    print(m["seed"], m.get("confirmed"), m["detected_before_strengthening"], m.get("detected_by"))
