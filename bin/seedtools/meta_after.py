#!/usr/bin/env python3
"""usage: meta_after.py <seed-name> <check-id> [...]  - re-run the named quick checks against a stored seed in the scratch worktree and record
the result in its meta.json as the state after strengthening (detected_before_strengthening keeps what the first evaluation found)"""
import json, os, subprocess, sys
ROOT = "/verif"
EVAL = os.environ.get("SEED_EVAL_REPO", "/tmp/evalrepo")
name, checks = sys.argv[1], sys.argv[2:]
d = os.path.join(ROOT, "seeded", name)
m = json.load(open(os.path.join(d, "meta.json")))
if not os.path.isdir(EVAL):
    subprocess.check_call("git -C /repo worktree add -q --detach %s HEAD" % EVAL, shell=True)
subprocess.call("git -C %s checkout -q -- ." % EVAL, shell=True)
subprocess.check_call("git -C %s apply %s/patch.diff" % (EVAL, d), shell=True)
env = dict(os.environ, BBVERIF_REPO=EVAL, PYTHONPATH=os.path.join(EVAL, "blackbird_python"))
m.setdefault("detected_before_strengthening", list(m.get("detected_by", [])))
after = m.setdefault("checks_run_quick_after_strengthening", {})
try:
    for c in checks:
        p = subprocess.run("sh bin/check %s quick" % c, shell=True, cwd=ROOT, env=env, capture_output=True, text=True)
        o = p.stdout + p.stderr
        lines = [l for l in o.split("\n") if l.startswith(("VIOLATION", "KNOWN", "HARNESS", c + " "))]
        after[c] = {"exit": p.returncode, "summary": lines[-1] if lines else "", "violations": [l for l in lines if l.startswith("VIOLATION")][:3]}
        vi = o.find("VIOLATION")
        if vi >= 0:
            after[c]["first_violation_text"] = o[vi:vi + 700]
        print(name, c, "exit", p.returncode)
finally:
    subprocess.call("git -C %s checkout -q -- ." % EVAL, shell=True)
m["detected_by"] = sorted(set(m.get("detected_by", [])) | {c for c, r in after.items() if r["exit"] == 1})
if not m["detected_before_strengthening"]:
    m["note"] = "missed by the checks as they were when the change was written; detected after the strengthening described in DESIGN.md section 11"
else:
    m.setdefault("note", "detected by the version of the checks that existed when the change was written")
note = os.path.join(d, "NOTE.md")
if os.path.exists(note) and "needs_to_manifest" not in m:
    m["needs_to_manifest"] = open(note).read()[:1500]
json.dump(m, open(os.path.join(d, "meta.json"), "w"), indent=1)
