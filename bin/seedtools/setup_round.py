#!/usr/bin/env python3
"""usage: setup_round.py <WT> <theme-file>  -- one scratch worktree of /repo per property under <WT>/<ID>, tools in <WT>/tools,
and one prompt per property in <WT>/prompts/<ID>.txt (PROMPT.txt with @WT@, @ID@, @THEME@ filled in)."""
import json, os, shutil, subprocess, sys
wt, theme = sys.argv[1], open(sys.argv[2]).read().strip()
here = os.path.dirname(os.path.abspath(__file__))
os.makedirs(wt + "/tools", exist_ok=True)
os.makedirs(wt + "/prompts", exist_ok=True)
shutil.copy(here + "/baseline.py", wt + "/tools/baseline.py")
tmpl = open(here + "/PROMPT.txt").read()
for l in open("/verif/properties.jsonl"):
    p = json.loads(l)
    i = p["id"]
    with open("%s/tools/%s.txt" % (wt, i), "w") as f:
        f.write("%s\n\n%s\n\nQuantified over: %s\n" % (p["title"], p["statement"], p["quantifier"]["text"]))
    d = "%s/%s" % (wt, i)
    if not os.path.isdir(d):
        subprocess.check_call(["git", "-C", "/repo", "worktree", "add", "-q", "--detach", d, "HEAD"])
    open("%s/prompts/%s.txt" % (wt, i), "w").write(tmpl.replace("@WT@", wt).replace("@ID@", i).replace("@THEME@", theme))
print("ok", wt)
