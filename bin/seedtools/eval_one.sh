#!/bin/sh
# usage: eval_one.sh <WT> <round-tag> <ID> [more check ids]   - confirm and evaluate one seeded change in its own scratch worktree
WT=$1; R=$2; ID=$3; shift 3
E=/tmp/evalrepo_${R}_$ID
[ -d "$E" ] || git -C /repo worktree add -q --detach "$E" HEAD
SEED_EVAL_REPO=$E python3 /verif/bin/seed_eval.py $WT/$ID $ID-$R $ID "$@" 2>&1 | grep -v -i conda
git -C /repo worktree remove --force "$E"
