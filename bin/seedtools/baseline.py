#!/usr/bin/env python3
"""usage: baseline.py <worktree>  -- runs the test suite of the worktree and checks that the 467 baseline-passing tests still pass"""
import json, subprocess, sys, tempfile, os
import xml.etree.ElementTree as ET
wt = os.path.abspath(sys.argv[1])
want = set(json.load(open('/root/.vp/BASELINE.json'))['stable_pass'])
f = tempfile.mktemp(suffix='.xml')
env = dict(os.environ, PYTHONPATH=os.path.join(wt, 'blackbird_python'))
subprocess.run(['/venv/bin/python', '-m', 'pytest', '-q', '-p', 'no:cacheprovider', '--timeout=900', '--junitxml=' + f, 'blackbird_python'], cwd=wt, env=env,
               stdout=subprocess.DEVNULL, stderr=subprocess.DEVNULL)
got = set()
for tc in ET.parse(f).getroot().iter('testcase'):
    if not any(ch.tag in ('failure', 'error', 'skipped') for ch in tc):
        got.add(tc.get('classname') + '::' + tc.get('name'))
os.unlink(f)
missing = sorted(want - got)
print('baseline-passing tests: %d, of these still passing: %d, now failing: %d' % (len(want), len(want & got), len(missing)))
for m in missing[:20]:
    print('  NOW FAILING', m)
sys.exit(1 if missing else 0)
