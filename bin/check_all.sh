#!/bin/sh
# convenience: run several checks, print summary lines
T=${T:-quick}
for id in "$@"; do sh /verif/bin/check $id $T 2>&1 | grep -v conda | grep -E "^(C[0-9]+ |VIOLATION|KNOWN|HARNESS)" ; done
