#!/usr/bin/env python
# C19 replay: runs the script in subprocesses under PYTHONHASHSEED 0..63 and compares digests of content + dumps() text.
import sys; sys.path.insert(0, '/verif')
from bbverif.checks import c19
r = c19.seed_sweep(0, [0.5, 4], range(64))
if r is None:
    print("identical under all seeds"); sys.exit(0)
print(r["text"]); print(r["what"]); print(r["observed"]); sys.exit(1)
