#!/usr/bin/env python
# C10 replay: the text through blackbird.loads; ungrammatical text must raise BlackbirdSyntaxError with line:col+1 of the offending token
import sys; sys.path.insert(0, '/verif')
from bbverif.checks import c10
r = c10.concrete_text('x.y prog\nversion 1.0\ntarget X8 (shots=10, flag=True)\ntype tdm (copies=2)\n\nfloat x = 0.5\nint n = 2\nDgate(x, phi=-x*2) | n\nVac | [0, 1]\n')
if r is None:
    print("as demanded"); sys.exit(0)
print(r["text"]); print("what    :", r["what"]); print("observed:", r["observed"]); print("expected:", r["expected"]); sys.exit(1)
