#!/usr/bin/env python
# C07 replay: writes the files to a scratch directory, chdirs as described, loads the main script with the real
# blackbird.load and compares with the reference inlining.
import sys; sys.path.insert(0, '/verif')
from bbverif.checks import c07
r = c07.concrete_check(('shared_lib_first', 'elsewhere', 'absolute'), [0.0, 8, 1, 0.0, 1, 0.0, 0, 0, 0, 1, 2, 3])
if r in (None, "skip"):
    print("as inlined"); sys.exit(0)
print(r["text"]); print("what    :", r["what"]); print("observed:", r["observed"]); print("expected:", r["expected"]); sys.exit(1)
