#!/usr/bin/env python
# C09 replay: builds the program through the API with concrete values, dumps it, loads the text, compares.
import sys; sys.path.insert(0, '/verif')
from bbverif.checks import c09
r = c09.concrete_check(('edge', 'pos', 9), [])
if r is None:
    print("round trip ok"); sys.exit(0)
print(r["text"]); print("what    :", r["what"]); print("observed:", r["observed"]); print("expected:", r["expected"]); sys.exit(1)
