#!/usr/bin/env python
# C03 replay: evaluates one concrete expression with the real blackbird.loads (no stubs) and with the
# reference semantics (precedence per the property); exit 1 if they disagree.
import sys; sys.path.insert(0, '/verif')
from bbverif.checks import c03
sys.exit(c03.replay(('none', [('l', 'int'), ('o', '+'), ('u', '-'), ('l', 'int'), ('o', '+'), ('l', 'float')]), True, [9007199254740993, 9007199254740992, 0.5]))
