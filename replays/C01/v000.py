#!/usr/bin/env python
# C01 replay: loads the script, dumps, re-loads (two generations) with the real blackbird and compares the programs.
import sys; sys.path.insert(0, '/verif')
from bbverif.checks import c01
r = c01.concrete_check(('own', 33), [0.0, 0.0, 0, 0, 0, 0.0, 1])
if r in (None, "skip"):
    print("round trip ok"); sys.exit(0)
print(r["text"]); print("what    :", r["what"]); print("observed:", r["observed"]); print("expected:", r["expected"]); sys.exit(1)
