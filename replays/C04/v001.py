#!/usr/bin/env python
# C04 replay: loads the template with the real blackbird, instantiates it with concrete values and compares with the
# reference interpreter run on the same text with the values substituted; exit 1 if they differ.
import sys; sys.path.insert(0, '/verif')
from bbverif.checks import c04
sys.exit(c04.replay(('array', 'arr_1p', 'loop_kwarg'), [0.0, 0.0, 0, 0.0]))
