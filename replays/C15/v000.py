#!/usr/bin/env python
# replay: loads one concrete script with the real blackbird (no stubs) and compares with the reference interpreter;
# exit 1 if the property is violated for these values.
import sys; sys.path.insert(0, '/verif')
from bbverif.checks import _script
sys.exit(_script.replay('bbverif.checks.c15', 'three_arrays', [0, 0, 0, 0, 0.0, 0.0, 0.0, 0.0, 0.0, 0.0, 0.0, 0, 1, 2, 3]))
