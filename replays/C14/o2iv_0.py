#!/usr/bin/env python
# replay of a C14 finding: re-derives the expectation from src/blackbird.g4 and compares with the shipped artefact
import sys; sys.path.insert(0, '/verif')
from bbverif.checks import c14
sys.exit(c14.replay('parse', {'tag': 'python', 'root': 'start', 'w': [19, 58, 16, 20, 10, 50, 23, 6, 56, 0]}))
