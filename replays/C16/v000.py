#!/usr/bin/env python
# C16 replay: builds the concrete program, calls the real to_DiGraph, compares reachability with the reference relation.
import sys; sys.path.insert(0, '/verif')
from bbverif.checks import c16
r = c16.concrete_check((0, 3), [0, 1, 0])
if r is None:
    print("property holds for these wires"); sys.exit(0)
print(r["text"]); print("observed:", r["observed"]); print("expected:", r["expected"]); sys.exit(1)
