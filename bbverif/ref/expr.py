"""Reference semantics of Blackbird numeric expressions, written from the property text (C03)
and doc/syntax.rst, not from the implementation.

A Pratt evaluator over the token stream: brackets > unary sign > right-associative ** >
* / (left) > + - (left); true division; python numeric tower for the result kind; functions
and pi by name; declared variables; row-major array indexing.

It is polymorphic in the number algebra (terms.Z3Alg for symbolic runs, terms.PyAlg for replays)
and collects the *domain conditions* under which the property promises a value (divisors != 0,
function arguments inside the real domains, non-negative integer exponents on integers,
indices in range).
"""
import re

from ..pysym import terms as T

FUNC_TOKENS = {n.upper(): n for n in T.FUNCS}
BINPREC = {"PWR": 8, "TIMES": 7, "DIVIDE": 7, "PLUS": 6, "MINUS": 6}
UNARY_PREC = 9

_NUM = r"(?:\d+(?:\.\d+)?(?:[eE][+-]?\d+)?)"
_CPLX = re.compile(r"^([+-])?(?:(" + _NUM + r")([+-]))?(" + _NUM + r")[jJ]$")


class RefError(Exception):
    """the reference itself rejects the expression (e.g. undefined name)"""


class Domain:
    """collected side conditions; symbolic: list of z3 Bool; concrete: flag"""

    def __init__(self, symbolic):
        self.symbolic = symbolic
        self.conds = []
        self.ok = True

    def require(self, cond):
        if self.symbolic:
            self.conds.append(cond)
        elif not cond:
            self.ok = False


class Ctx:
    def __init__(self, alg, leaf, variables=None, arrays=None, symbolic=True, params=None):
        self.alg = alg
        self.leaf = leaf              # function (kind, unsigned lexeme) -> algebra value
        self.vars = variables if variables is not None else {}
        self.arrays = arrays if arrays is not None else {}
        self.dom = Domain(symbolic)
        self.symbolic = symbolic
        self.params = params          # name -> value for {p} (None: parameters unsupported here)


def kind_of(x):
    if isinstance(x, T.V):
        return "int" if x.kind == "bool" else x.kind
    if isinstance(x, bool):
        return "int"
    if isinstance(x, int):
        return "int"
    if isinstance(x, float):
        return "float"
    if isinstance(x, complex):
        return "complex"
    import numpy as np
    if isinstance(x, np.integer):
        return "int"
    if isinstance(x, np.floating):
        return "float"
    if isinstance(x, np.complexfloating):
        return "complex"
    raise RefError("not a number %r" % (x,))


def literal(ctx, ttype, text):
    """value of a numeric literal token"""
    if ttype == "INT":
        return ctx.leaf("int", text)
    if ttype == "FLOAT":
        return ctx.leaf("float", text)
    if ttype == "PI":
        return ctx.alg.pi
    if ttype == "COMPLEX":
        m = _CPLX.match(text)
        if not m:
            raise RefError("bad complex literal %r" % text)
        s0, a, s1, b = m.groups()
        alg = ctx.alg
        im = ctx.leaf("float", b)
        j = alg.const(1j)
        if a is None:
            z = alg.mul(im, j)
            return alg.neg(z) if s0 == "-" else z
        rea = ctx.leaf("float", a)
        if s0 == "-":
            rea = alg.neg(rea)
        z = alg.mul(im, j)
        return alg.add(rea, z) if s1 == "+" else alg.sub(rea, z)
    raise RefError("not a literal: %s" % ttype)


class Parser:
    def __init__(self, ctx, toks):
        self.c = ctx
        self.t = toks
        self.i = 0

    def peek(self):
        return self.t[self.i] if self.i < len(self.t) else (None, None)

    def next(self):
        x = self.peek()
        self.i += 1
        return x

    def expect(self, ty):
        a, b = self.next()
        if a != ty:
            raise RefError("expected %s got %s" % (ty, a))
        return b

    def expr(self, minprec=0):
        c = self.c
        alg = c.alg
        ty, tx = self.next()
        if ty in ("PLUS", "MINUS"):
            operand = self.expr(UNARY_PREC)
            left = alg.neg(operand) if ty == "MINUS" else operand
        elif ty == "LBRAC":
            left = self.expr(0)
            self.expect("RBRAC")
        elif ty in FUNC_TOKENS:
            self.expect("LBRAC")
            arg = self.expr(0)
            self.expect("RBRAC")
            left = self.func(FUNC_TOKENS[ty], arg)
        elif ty in ("INT", "FLOAT", "COMPLEX", "PI"):
            left = literal(c, ty, tx)
        elif ty == "NAME":
            if self.peek()[0] == "LSQBRAC":
                self.next()
                idx = self.expr(0)
                self.expect("RSQBRAC")
                left = self.index(tx, idx)
            else:
                if tx not in c.vars:
                    raise RefError("undefined name %s" % tx)
                left = c.vars[tx]
        elif ty == "LBRACE":
            name = self.expect("NAME")
            self.expect("RBRACE")
            if c.params is None or name not in c.params:
                raise RefError("parameter {%s} without a value" % name)
            left = c.params[name]
        else:
            raise RefError("unexpected token %s" % ty)
        while True:
            ty, tx = self.peek()
            p = BINPREC.get(ty)
            if p is None or p < minprec:
                return left
            self.next()
            if ty == "PWR":
                right = self.expr(p)          # right associative
                left = self.power(left, right)
            else:
                right = self.expr(p + 1)      # left associative
                if ty == "TIMES":
                    left = alg.mul(left, right)
                elif ty == "DIVIDE":
                    left = self.divide(left, right)
                elif ty == "PLUS":
                    left = alg.add(left, right)
                else:
                    left = alg.sub(left, right)

    # -- operations with domain conditions
    def divide(self, a, b):
        c = self.c
        if c.symbolic:
            if b.kind == "complex":
                c.dom.require(b.re * b.re + b.im * b.im != 0)
            else:
                c.dom.require(b.re != 0)
        else:
            c.dom.require(b != 0)
            if b == 0:
                return float("nan")
        return c.alg.div(a, b)

    def power(self, a, b):
        c = self.c
        if kind_of(a) == "int" and kind_of(b) == "int":
            # integers stay integers: only non-negative integer exponents have an integer value
            c.dom.require((b.re >= 0) if c.symbolic else (b >= 0))
            if not c.symbolic and b < 0:
                return float("nan")
        elif not c.symbolic:
            if isinstance(a, complex) or isinstance(b, complex):
                # branch cut of the complex power: a base on (or within rounding of) the negative real axis is outside the claim
                za = complex(a)
                if za.real <= 0 and abs(za.imag) <= 1e-9 * max(abs(za), 1e-300):
                    c.dom.require(False)
                    return float("nan")
            try:
                r = c.alg.power(a, b)
            except (ZeroDivisionError, OverflowError):
                c.dom.require(False)
                return float("nan")
            if isinstance(r, complex) and kind_of(a) != "complex" and kind_of(b) != "complex":
                c.dom.require(False)   # negative base to a fractional power: outside the real domain
            return r
        if c.symbolic and kind_of(b) != "complex":
            # a pole: zero to a negative power (only a constant exponent tells its sign)
            import z3
            eb = z3.simplify(b.re)
            neg = (z3.is_int_value(eb) and eb.as_long() < 0) or (z3.is_rational_value(eb) and eb.numerator_as_long() < 0)
            if neg:
                c.dom.require(z3.Or(a.re != 0, a.im != 0) if a.kind == "complex" else a.re != 0)
        return c.alg.power(a, b)

    def func(self, name, a):
        c = self.c
        if kind_of(a) == "complex" and not c.symbolic and name not in ("exp", "sin", "cos", "sinh", "cosh"):
            # (exp, sin, cos, sinh, cosh are entire functions: no cuts, no poles)
            # branch cuts of the complex elementary functions lie on the axes: arguments within rounding of an axis are outside the claim
            za = complex(a)
            if min(abs(za.real), abs(za.imag)) <= 1e-9 * max(abs(za), 1e-300):
                c.dom.require(False)
                return float("nan")
        if kind_of(a) != "complex":
            x = T.to_real(a.re) if c.symbolic else a
            lo_hi = {
                "log": lambda x: x > 0, "sqrt": lambda x: x >= 0,
                "arcsin": lambda x: _and(c, x >= -1, x <= 1), "arccos": lambda x: _and(c, x >= -1, x <= 1),
                "arccosh": lambda x: x >= 1, "arctanh": lambda x: _and(c, x > -1, x < 1),
            }.get(name)
            if lo_hi is not None:
                c.dom.require(lo_hi(x))
                if not c.symbolic and not c.dom.ok:
                    return float("nan")
        return c.alg.func(name, a)

    def index(self, name, idx):
        c = self.c
        if name not in c.arrays:
            raise RefError("undefined array %s" % name)
        rows = c.arrays[name]
        flat = [e for row in rows for e in row]      # row-major order
        if kind_of(idx) != "int":
            raise RefError("non-integer index")
        if not c.symbolic:
            c.dom.require(0 <= idx < len(flat))
            if not (0 <= idx < len(flat)):
                return float("nan")
            return flat[idx]
        import z3
        c.dom.require(z3.And(idx.re >= 0, idx.re < len(flat)))
        jk = "int"
        for e in flat:
            jk = T.join(jk, "int" if e.kind == "bool" else e.kind)
        flat = [T.lift(e, jk) if jk != "int" else e for e in flat]
        res = flat[-1]
        for k in range(len(flat) - 2, -1, -1):
            e = flat[k]
            if res.kind == "complex":
                res = T.V("complex", z3.If(idx.re == k, e.re, res.re), z3.If(idx.re == k, e.im, res.im))
            else:
                res = T.V(res.kind, z3.If(idx.re == k, e.re, res.re))
        return res


def _and(c, a, b):
    if c.symbolic:
        import z3
        return z3.And(a, b)
    return a and b


def evaluate(ctx, toks):
    p = Parser(ctx, toks)
    v = p.expr(0)
    if p.i != len(toks):
        raise RefError("trailing tokens")
    return v
