"""Reference interpreter for Blackbird scripts, written from the property statements
(C02, C04, C05, C06, C07, C08, C11, C15) and doc/syntax.rst - NOT from listener.py.

Works on the token stream of the real lexer (lexing is C14's claim), is polymorphic in the
number algebra (z3 terms or python numbers) and produces a RefProgram or raises Reject.
"""
from ..pysym import terms as T
from . import expr as X

VARTYPES = {"TYPE_FLOAT": "float", "TYPE_COMPLEX": "complex", "TYPE_INT": "int", "TYPE_STR": "str",
            "TYPE_BOOL": "bool", "TYPE_ARRAY": "array"}
RESERVED = ("PROGNAME", "VERSION", "TARGET", "PROGTYPE")


class Reject(Exception):
    """the script must be refused.  kind: 'undefined' | 'reserved' | 'mode' | 'type' | 'loopvalue' | 'include' |
    'shape' | 'ragged' | 'other';  for undefined/reserved the property demands a BlackbirdSyntaxError naming
    identifier, line and column."""

    def __init__(self, kind, ident=None, line=None, col=None, msg=""):
        Exception.__init__(self, "%s %s %s:%s %s" % (kind, ident, line, col, msg))
        self.kind = kind
        self.ident = ident
        self.line = line
        self.col = col


class Sym:
    """a value that depends on template parameters and/or measured registers: `value` is the algebra value with
    the symbols as free variables"""

    def __init__(self, value, params, regs):
        self.value = value
        self.params = tuple(params)
        self.regs = tuple(regs)

    def __repr__(self):
        return "Sym(%r, params=%r, regs=%r)" % (self.value, self.params, self.regs)


class RefArray:
    def __init__(self, kind, rows):
        self.kind = kind      # declared element type
        self.rows = rows      # list of lists of values (numbers or Sym)

    @property
    def shape(self):
        return (len(self.rows), len(self.rows[0]) if self.rows else 0)


class ByName:
    """tdm p-array passed by name"""

    def __init__(self, name):
        self.name = name

    def __repr__(self):
        return "ByName(%s)" % self.name


class RefProgram:
    def __init__(self):
        self.name = None
        self.version = None
        self.target = {"name": None, "options": {}}
        self.type = {"name": None, "options": {}}
        self.operations = []   # dicts op, args (list), kwargs (ordered dict), modes (list), has_args (bool)
        self.variables = {}
        self.parameters = set()
        self.includes = {}


class Interp:
    def __init__(self, toks, alg, leaf, symbolic, params=None, files=None, regvals=None, depth=0, symfactory=None):
        """toks: [(TOKNAME, text, line, col)] ; params: name -> value to substitute for {name} (instantiation)
        or None for a template (symbols stay free); files: callable path -> token list of an included file"""
        self.t = toks
        self.i = 0
        self.alg = alg
        self.leaf = leaf
        self.symbolic = symbolic
        self.params = params
        self.files = files
        self.depth = depth
        self.prog = RefProgram()
        self.vars = {}          # name -> value (number / str / bool / Sym / RefArray)
        self.pnames = set()     # tdm p-array names
        self.dom = X.Domain(symbolic)
        self.symfactory = symfactory or SymFactory(alg, symbolic, regvals)
        self.loopvar = None
        self.forks = None       # shared Forks object (symbolic mode)

    # ---------------------------------------------------------------- token helpers
    def peek(self, k=0):
        j = self.i + k
        return self.t[j] if j < len(self.t) else ("EOF", "", None, None)

    def next(self):
        x = self.peek()
        self.i += 1
        return x

    def accept(self, ty):
        if self.peek()[0] == ty:
            return self.next()
        return None

    def expect(self, ty):
        x = self.next()
        if x[0] != ty:
            raise X.RefError("expected %s, got %s %r at %s:%s" % (ty, x[0], x[1], x[2], x[3]))
        return x

    def skip_newlines(self):
        while self.peek()[0] == "NEWLINE":
            self.next()

    # ---------------------------------------------------------------- top level
    def run(self):
        self.skip_newlines()
        self.expect("PROGNAME")
        self.prog.name = self.expect("NAME")[1]
        self.expect("NEWLINE")
        self.skip_newlines()
        self.expect("VERSION")
        self.prog.version = self.expect("FLOAT")[1]
        # optional target / type (each must be preceded by newlines)
        save = self.i
        self.skip_newlines()
        if self.peek()[0] == "TARGET":
            self.next()
            ty, tx, _, _ = self.next()
            if ty not in ("NAME", "DEVICE"):
                raise X.RefError("bad device")
            self.prog.target["name"] = tx
            if self.peek()[0] == "LBRAC":
                a, kw, _ = self.arguments(metadata=True)
                self.prog.target["options"] = kw
            save = self.i
            self.skip_newlines()
        if self.peek()[0] == "PROGTYPE":
            self.next()
            self.prog.type["name"] = self.expect("NAME")[1]
            if self.peek()[0] == "LBRAC":
                a, kw, _ = self.arguments(metadata=True)
                self.prog.type["options"] = kw
            save = self.i
        self.i = save
        # includes
        while True:
            if self.peek()[0] == "NEWLINE":
                self.next()
            elif self.peek()[0] == "INCLUDE":
                self.next()
                s = self.expect("STR")[1][1:-1]
                self.include(s)
            else:
                break
        # program
        while self.peek()[0] != "EOF":
            ty = self.peek()[0]
            if ty == "NEWLINE":
                self.next()
            elif ty == "FOR":
                self.forloop()
            elif ty in VARTYPES:
                if self.peek(1)[0] == "TYPE_ARRAY":
                    self.arrayvar()
                else:
                    self.scalarvar()
            elif ty in ("NAME", "MEASURE"):
                self.statement()
            else:
                raise X.RefError("unexpected token %s at %s:%s" % (ty, self.peek()[2], self.peek()[3]))
        self.prog.variables = dict(self.vars)
        return self.prog

    # ---------------------------------------------------------------- expressions
    def collect_expr(self, stops):
        """token slice of one expression: up to a top-level token in `stops`"""
        depth = 0
        j = self.i
        while j < len(self.t):
            ty = self.t[j][0]
            if depth == 0 and ty in stops:
                break
            if depth == 0 and j > self.i and ty == "NAME" and j + 1 < len(self.t) and self.t[j + 1][0] == "ASSIGN":
                break       # a keyword argument begins (the comma before it is optional in the grammar)
            if ty in ("LBRAC", "LSQBRAC", "LBRACE"):
                depth += 1
            elif ty in ("RBRAC", "RSQBRAC", "RBRACE"):
                if depth == 0:
                    break
                depth -= 1
            elif ty in ("NEWLINE", "EOF"):
                break
            j += 1
        sl = self.t[self.i:j]
        self.i = j
        return sl

    def value(self, stops):
        """val : nonnumeric | expression   -> python value"""
        ty, tx, ln, col = self.peek()
        if ty == "STR":
            self.next()
            return tx[1:-1]
        if ty == "BOOL":
            self.next()
            return tx == "True"
        sl = self.collect_expr(stops)
        if not sl:
            raise X.RefError("empty expression at %s:%s" % (ln, col))
        return self.eval_expr(sl)

    def eval_expr(self, sl):
        # undefined names are refused with their position (C11)
        used_params = []
        used_regs = []
        byname = None
        k = 0
        while k < len(sl):
            ty, tx, ln, col = sl[k]
            if ty == "NAME":
                prev = sl[k - 1][0] if k > 0 else None
                nxt = sl[k + 1][0] if k + 1 < len(sl) else None
                if prev == "LBRACE" and nxt == "RBRACE":
                    if tx not in used_params:
                        used_params.append(tx)
                elif tx not in self.vars:
                    raise Reject("undefined", tx, ln, col)
                else:
                    v = self.vars[tx]
                    if tx in self.pnames and nxt != "LSQBRAC":
                        if len(sl) == 1 or all(t[0] in ("LBRAC", "RBRAC", "PLUS") for i_, t in enumerate(sl) if i_ != k):
                            # (brackets and a plus sign around the name denote the same array)
                            byname = ByName(tx)
                        # a p-array inside a larger expression is outside the described language
                    if isinstance(v, Sym):
                        for p in v.params:
                            if p not in used_params:
                                used_params.append(p)
                        for r in v.regs:
                            if r not in used_regs:
                                used_regs.append(r)
                    if isinstance(v, RefArray) and nxt == "LSQBRAC":
                        for row in v.rows:
                            for e in row:
                                if isinstance(e, Sym):
                                    for p in e.params:
                                        if p not in used_params:
                                            used_params.append(p)
            elif ty == "REGREF":
                n = int(tx[1:])
                if n not in used_regs:
                    used_regs.append(n)
            k += 1
        if byname is not None:
            return byname
        sf = self.symfactory
        variables = {}
        arrays = {}
        for nm, v in self.vars.items():
            if isinstance(v, RefArray):
                arrays[nm] = [[(e.value if isinstance(e, Sym) else e) for e in row] for row in v.rows]
            elif isinstance(v, Sym):
                variables[nm] = v.value
            elif isinstance(v, (str, bool)):
                variables[nm] = v
            else:
                variables[nm] = v
        pvals = {}
        passed_on = []      # free parameters of the *caller* that arrive through bound values (nested template includes)
        for p in used_params:
            if self.params is not None:
                if p not in self.params:
                    raise Reject("missing-parameter", p)
                v = self.params[p]
                if isinstance(v, Sym):
                    pvals[p] = v.value
                    for q in v.params:
                        if q not in passed_on:
                            passed_on.append(q)
                    for r in v.regs:
                        if r not in used_regs:
                            used_regs.append(r)
                else:
                    pvals[p] = v
            else:
                pvals[p] = sf.param(p)
        ctx = X.Ctx(self.alg, self.leaf, variables, arrays, self.symbolic, params=pvals)
        ctx.dom = self.dom
        toks2 = []
        for (ty, tx, ln, col) in sl:
            if ty == "REGREF":
                nm = "__reg_%s" % tx[1:]
                variables[nm] = sf.reg(int(tx[1:]))
                toks2.append(("NAME", nm))
            else:
                toks2.append((ty, tx))
        # a bare variable holding a string / bool / array is passed by value
        if len(toks2) == 1 and toks2[0][0] == "NAME":
            nm = toks2[0][1]
            if isinstance(variables.get(nm), (str, bool)):
                return variables[nm]
            if isinstance(self.vars.get(nm), RefArray):
                return self.vars[nm]
        val = X.evaluate(ctx, toks2)
        free_params = used_params if self.params is None else passed_on
        for p in free_params:
            self.prog.parameters.add(p)
        if free_params or used_regs:
            return Sym(val, free_params, used_regs)
        return val

    # ---------------------------------------------------------------- arguments
    def arguments(self, metadata=False):
        """'(' (val (',' val)*)? ','? (kwarg (',' kwarg)*)? ')'  -> (args, kwargs, True)"""
        self.expect("LBRAC")
        args = []
        kwargs = {}
        while self.peek()[0] != "RBRAC":
            if self.peek()[0] == "NAME" and self.peek(1)[0] == "ASSIGN":
                key = self.next()[1]
                self.next()
                if self.peek()[0] == "LSQBRAC":
                    self.next()
                    lst = []
                    while self.peek()[0] != "RSQBRAC":
                        lst.append(self.value(("COMMA",)))
                        self.accept("COMMA")
                    self.expect("RSQBRAC")
                    kwargs[key] = lst
                else:
                    kwargs[key] = self.value(("COMMA",))
            else:
                args.append(self.value(("COMMA",)))
                # arguments : '(' (val (',' val)*)? ','? (kwarg (',' kwarg)*)? ')' - the comma between the last positional
                # argument and the first keyword argument is optional
                if self.peek()[0] == "NAME" and self.peek(1)[0] == "ASSIGN":
                    continue
            if not self.accept("COMMA"):
                break
        self.expect("RBRAC")
        return args, kwargs, True

    # ---------------------------------------------------------------- declarations
    def declared_name(self):
        ty, tx, ln, col = self.next()
        if ty == "REGREF" or ty in RESERVED:
            raise Reject("reserved", tx, ln, col)
        if ty != "NAME":
            raise X.RefError("bad variable name %s" % ty)
        return tx

    def cast(self, vartype, v, name):
        """declared-type conversion of an initialiser value (parameter-free)"""
        if isinstance(v, Sym):
            return v
        if vartype in ("int", "float", "complex"):
            if isinstance(v, (str, bool)):
                raise Reject("type", name)
            if isinstance(v, RefArray):
                if v.kind == "complex" and vartype != "complex":
                    raise Reject("type", name)   # a whole complex array is a complex value, too
                raise X.RefError("a whole array as the initialiser of a scalar is outside the described language")
            k = X.kind_of(v)
            if vartype != "complex" and k == "complex":
                raise Reject("type", name)       # complex into int/float is refused (C11)
            if vartype == "int":
                if k == "float":
                    return T.trunc_int(v) if self.symbolic else int(v)
                return v
            if vartype == "float":
                if self.symbolic:
                    return T.V("float", T.to_f64(v.re))
                return float(v)
            if self.symbolic:
                return T.lift(v, "complex")
            return complex(v)
        if vartype == "str":
            return v if isinstance(v, str) else str(v)
        if vartype == "bool":
            return v if isinstance(v, bool) else bool(v)
        raise X.RefError("bad type %s" % vartype)

    def scalarvar(self):
        vt = VARTYPES[self.next()[0]]
        name = self.declared_name()
        self.expect("ASSIGN")
        v = self.value(())
        self.vars[name] = self.cast(vt, v, name)

    def arrayvar(self):
        vt = VARTYPES[self.next()[0]]
        self.expect("TYPE_ARRAY")
        name = self.declared_name()
        shape = None
        if self.accept("LSQBRAC"):
            shape = [self.leaf_int(self.expect("INT")[1])]
            while self.accept("COMMA"):
                shape.append(self.leaf_int(self.expect("INT")[1]))
            self.expect("RSQBRAC")
        self.expect("ASSIGN")
        self.expect("NEWLINE")
        rows = []
        whole = None
        if self.peek()[0] == "LBRACE":
            # whole-array parameter {w} (unindented form of the grammar) with a declared shape
            self.next()
            whole = self.expect("NAME")[1]
            self.expect("RBRACE")
        elif [self.peek(k)[0] for k in range(5)] == ["TAB", "LBRACE", "NAME", "RBRACE", "NEWLINE"] and self.peek(5)[0] != "TAB":
            # a body that consists of one bare {w} denotes a whole-array parameter (needs a declared shape)
            self.next()
            self.next()
            whole = self.expect("NAME")[1]
            self.expect("RBRACE")
            self.expect("NEWLINE")
        else:
            while self.peek()[0] == "TAB":
                self.next()
                row = []
                while True:
                    sl = self.collect_expr(("COMMA",))
                    row.append(self.eval_expr(sl))
                    if not self.accept("COMMA"):
                        break
                self.expect("NEWLINE")
                rows.append(row)
        if whole is not None:
            if shape is None or len(shape) != 2:
                raise Reject("shape", name)
            r, c = shape
            if not (isinstance(r, int) and isinstance(c, int)):
                raise X.RefError("symbolic shape of a whole-array parameter")
            rows = []
            for i in range(r):
                row = []
                for j in range(c):
                    pn = "%s_%d_%d" % (whole, i, j)
                    if self.params is not None:
                        if pn not in self.params:
                            raise Reject("missing-parameter", pn)
                        row.append(self.cast_elem(vt, self.params[pn], name))
                    else:
                        self.prog.parameters.add(pn)
                        row.append(Sym(self.symfactory.param(pn), [pn], []))
                rows.append(row)
        else:
            if len({len(r) for r in rows}) > 1:
                raise Reject("ragged", name)
            rows = [[self.cast_elem(vt, e, name) for e in row] for row in rows]
            if shape is not None:
                actual = (len(rows), len(rows[0]) if rows else 0)
                self.shape_check(shape, actual, name)
        arr = RefArray(vt, rows)
        self.vars[name] = arr
        if self.prog.type["name"] == "tdm" and name[0] == "p" and name[1:].isdigit():
            self.pnames.add(name)

    def leaf_int(self, text):
        """INT lexeme: a python int unless it is a symbolic placeholder"""
        v = self.leaf("int", text)
        if isinstance(v, T.V):
            c = T._const_int(v.re)
            if c is not None:
                return c
        return v

    def shape_check(self, shape, actual, name):
        """declared shape must equal the written layout; a (possibly symbolic) mismatch is a rejection"""
        if len(shape) != len(actual):
            raise Reject("shape", name)
        import z3
        conds = []
        for d, a in zip(shape, actual):
            if isinstance(d, int):
                if d != a:
                    raise Reject("shape", name)
            else:
                conds.append(d.re == a)
        if conds:
            ok = self.forks.choose([(z3.And(conds), True), (z3.Not(z3.And(conds)), False)])
            if not ok:
                raise Reject("shape", name)

    def cast_elem(self, vt, e, name):
        if isinstance(e, Sym):
            return e
        return self.cast(vt, e, name)

    # ---------------------------------------------------------------- statements
    def modes(self):
        opened = None
        if self.peek()[0] in ("LBRAC", "LSQBRAC"):
            opened = self.next()[0]
        ms = []
        while True:
            first = self.peek()
            sl = self.collect_expr(("COMMA",))
            v = self.eval_expr(sl)
            if isinstance(v, (Sym, str, bool, ByName, RefArray)) or X.kind_of(v) != "int":
                raise Reject("mode", None, first[2], first[3])
            ms.append(v)
            if not self.accept("COMMA"):
                break
        # statement : ... APPLY (LBRAC|LSQBRAC)? arrayrow (RBRAC|RSQBRAC)? : either bracket may be written without the other
        if self.peek()[0] in ("RBRAC", "RSQBRAC"):
            self.next()
        return ms

    def statement(self, emit=True):
        ty, op, ln, col = self.next()
        args, kwargs, has = [], {}, False
        if self.peek()[0] == "LBRAC":
            args, kwargs, has = self.arguments()
        self.expect("APPLY")
        ms = self.modes()
        while self.peek()[0] == "NEWLINE" and False:
            self.next()
        operation = {"op": op, "args": args, "kwargs": kwargs, "modes": ms, "has_args": has}
        if op in self.prog.includes:
            self.call_include(operation)
        else:
            self.prog.operations.append(operation)

    # ---------------------------------------------------------------- for loops
    def forloop(self):
        self.expect("FOR")
        vt = VARTYPES[self.next()[0]]
        name = self.expect("NAME")[1]
        self.expect("IN")
        values = None
        if self.peek()[0] == "INT" and self.peek(1)[0] == "COLON":
            a = self.leaf_int(self.next()[1])
            self.next()
            b = self.leaf_int(self.next()[1])
            c = None
            if self.accept("COLON"):
                c = self.leaf_int(self.next()[1])
            values = ("range", a, b, c)
        else:
            opened = self.peek()[0] in ("LBRAC", "LSQBRAC")
            if opened:
                self.next()
            vals = []
            while True:
                vals.append(self.value(("COMMA",)))
                if not self.accept("COMMA"):
                    break
            # forloop : ... (LBRAC|LSQBRAC)? vallist (RBRAC|RSQBRAC)? : either bracket may be written without the other
            if self.peek()[0] in ("RBRAC", "RSQBRAC"):
                self.next()
            values = ("list", vals)
        # body: (NEWLINE TAB statement)+
        bodies = []
        while self.peek()[0] == "NEWLINE" and self.peek(1)[0] == "TAB":
            self.next()
            self.next()
            start = self.i
            depth = 0
            while self.peek()[0] not in ("NEWLINE", "EOF"):
                self.next()
            bodies.append((start, self.i))
        end = self.i
        seq = self.loop_values(vt, values, name)
        for v in seq:
            self.vars[name] = v
            for (s, e) in bodies:
                self.i = s
                self.statement()
        self.vars.pop(name, None)       # the loop variable is not visible after the loop
        self.i = end

    def loop_values(self, vt, values, name):
        if values[0] == "range":
            _, a, b, c = values
            if any(isinstance(x, T.V) for x in (a, b, c)):
                a, b = (x if isinstance(x, T.V) else T.const(x) for x in (a, b))
                c = c if (c is None or isinstance(c, T.V)) else T.const(c)
                return self.symbolic_range(vt, a, b, c, name)
            step = 1 if c is None else c
            if step == 0:
                raise Reject("other", name)
            return [self.loop_cast(vt, (T.const(v) if self.symbolic else v), name) for v in range(a, b, step)]
        return [self.loop_cast(vt, v, name) for v in values[1]]

    K = 3

    def symbolic_range(self, vt, a, b, c, name):
        """a:b:c denotes a, a+c, ... below b (above b for negative steps); empty ranges contribute nothing"""
        import z3
        one = T.const(1)
        c = one if c is None else c
        opts = []
        for pos in (True, False):
            for k in range(self.K + 1):
                if pos:
                    cond = z3.And(c.re > 0, (a.re >= b.re) if k == 0 else z3.And(a.re + (k - 1) * c.re < b.re, a.re + k * c.re >= b.re))
                else:
                    cond = z3.And(c.re < 0, (a.re <= b.re) if k == 0 else z3.And(a.re + (k - 1) * c.re > b.re, a.re + k * c.re <= b.re))
                opts.append((cond, k))
        opts.append((c.re == 0, None))
        k = self.forks.choose(opts)
        if k is None:
            raise Reject("other", name)
        vals = [T.V("int", a.re + i * c.re) for i in range(k)]
        return [self.loop_cast(vt, v, name) for v in vals]

    def loop_cast(self, vt, v, name):
        """a listed value must be of the loop type (conversion must not change it)"""
        if isinstance(v, Sym):
            raise Reject("loopvalue", name)
        if vt in ("int", "float"):
            if isinstance(v, (str,)):
                raise Reject("loopvalue", name)
            if isinstance(v, bool):
                return (T.const(int(v)) if self.symbolic else int(v)) if vt == "int" else (T.const(float(v)) if self.symbolic else float(v))
            k = X.kind_of(v)
            if k == "complex":
                raise Reject("loopvalue", name)
            if vt == "int" and k == "float":
                if self.symbolic:
                    import z3
                    integral = self.forks.choose([(z3.IsInt(v.re), True), (z3.Not(z3.IsInt(v.re)), False)])
                    if not integral:
                        raise Reject("loopvalue", name)
                    return T.V("int", z3.ToInt(v.re))
                if float(v) != int(v):
                    raise Reject("loopvalue", name)
                return int(v)
            if vt == "float" and k == "int":
                # an integer that no double represents exactly: the code refuses it when it is written as a literal and rounds it
                # when it is computed (NumPy compares int64 with float64 after conversion); the property does not say which, so
                # such values are outside the domain of the claim
                if self.symbolic:
                    import z3
                    conv = T.to_f64(v.re)
                    if not z3.eq(conv, z3.ToReal(v.re)):
                        self.dom.require(conv == z3.ToReal(v.re))
                    return T.V("float", conv)
                self.dom.require(float(v) == v)
                return float(v)
            return v
        if vt == "bool":
            if isinstance(v, bool):
                return v
            raise Reject("loopvalue", name)
        if vt == "str":
            if isinstance(v, str):
                return v
            raise Reject("loopvalue", name)
        raise Reject("loopvalue", name)

    # ---------------------------------------------------------------- includes
    def include(self, relpath):
        if self.files is None:
            raise X.RefError("include without a file provider")
        path, toks, subfiles = self.files(relpath)
        for nm, (p, _) in self.prog.includes.items():
            if p == path:
                return
        sub = Interp(toks, self.alg, self.leaf, self.symbolic, params=None, files=subfiles, depth=self.depth + 1,
                     symfactory=self.symfactory)
        sub.dom = self.dom
        sub.forks = self.forks
        prog = sub.run()
        self.prog.includes[prog.name] = (path, (toks, subfiles, prog))
        for nm, v in prog.includes.items():
            self.prog.includes.setdefault(nm, v)

    def call_include(self, operation):
        """inlining: the included text is re-interpreted with the call's keyword values bound to its parameters, and its
        modes, taken in increasing order, are renamed to the modes listed at the call"""
        path, (toks, subfiles, tmpl) = self.prog.includes[operation["op"]]
        tparams = set(tmpl.parameters)
        src = distinct_modes(tmpl)
        if len(operation["modes"]) != len(src):
            raise Reject("include", operation["op"])
        if operation["has_args"]:
            if operation["args"] or set(operation["kwargs"]) != tparams or not tparams:
                raise Reject("include", operation["op"])
            params = dict(operation["kwargs"])
        else:
            if tparams:
                raise Reject("include", operation["op"])
            params = {}
        sub = Interp(toks, self.alg, self.leaf, self.symbolic, params=params, files=subfiles,
                     depth=self.depth + 1, symfactory=self.symfactory)
        sub.dom = self.dom
        sub.forks = self.forks
        inst = sub.run()
        src = distinct_modes(inst)
        order = self.sorted_order(src)
        mapping = [(src[i], operation["modes"][k]) for k, i in enumerate(order)]
        for o in inst.operations:
            new = dict(o)
            new["modes"] = [self.map_mode(m, mapping) for m in o["modes"]]
            self.prog.operations.append(new)

    def sorted_order(self, ms):
        """indices of ms in increasing order of value (reference-side fork when symbolic)"""
        if not self.symbolic:
            return sorted(range(len(ms)), key=lambda i: ms[i])
        import itertools
        import z3
        opts = []
        for perm in itertools.permutations(range(len(ms))):
            cond = z3.And([ms[perm[i]].re < ms[perm[i + 1]].re for i in range(len(perm) - 1)]) if len(perm) > 1 else z3.BoolVal(True)
            opts.append((cond, list(perm)))
        return self.forks.choose(opts)

    def map_mode(self, m, mapping):
        if not self.symbolic:
            for s_, d in mapping:
                if s_ == m:
                    return d
            raise X.RefError("mode not in map")
        for s_, d in mapping:
            if s_.re.eq(m.re):
                return d
        import z3
        res = mapping[-1][1]
        for s_, d in reversed(mapping[:-1]):
            res = T.V("int", z3.If(m.re == s_.re, d.re, res.re))
        return res


def distinct_modes(prog):
    """modes used by a program, first occurrence order, distinct by identity of the written value"""
    out = []
    keys = set()
    for o in prog.operations:
        for m in o["modes"]:
            k = m.re.get_id() if isinstance(m, T.V) else m
            if k not in keys:
                keys.add(k)
                out.append(m)
    return out


class NeedChoice(Exception):
    def __init__(self, n):
        Exception.__init__(self, "need choice among %d" % n)
        self.n = n


class Forks:
    """reference-side case splits on symbolic conditions: the driver (run_all) re-runs the interpreter once per
    combination; each run carries the conjunction of the chosen conditions"""

    def __init__(self, choices):
        self.choices = list(choices)
        self.k = 0
        self.conds = []

    def choose(self, options):
        """options: list of (z3 cond, payload)"""
        if len(options) == 1:
            self.conds.append(options[0][0])
            return options[0][1]
        if self.k >= len(self.choices):
            raise NeedChoice(len(options))
        c = self.choices[self.k]
        self.k += 1
        self.conds.append(options[c][0])
        return options[c][1]


def run_all(make_interp, limit=64):
    """enumerate the reference's own case splits.  make_interp(forks) -> Interp.
    returns list of (conds, outcome) with outcome = ('ok', RefProgram) | ('reject', Reject)"""
    out = []
    work = [[]]
    while work:
        ch = work.pop()
        forks = Forks(ch)
        it = make_interp(forks)
        it.forks = forks
        try:
            prog = it.run()
            out.append((forks.conds, ("ok", prog), it))
        except Reject as r:
            out.append((forks.conds, ("reject", r), it))
        except NeedChoice as n:
            for c in range(n.n):
                work.append(ch + [c])
        if len(out) > limit:
            raise X.RefError("too many reference cases")
    return out


class SymbolicShape(Exception):
    def __init__(self, shape, actual, name):
        Exception.__init__(self, "symbolic shape")
        self.shape, self.actual, self.name = shape, actual, name


class SymbolicRange(Exception):
    def __init__(self, a, b, c, vt):
        Exception.__init__(self, "symbolic range")
        self.a, self.b, self.c, self.vt = a, b, c, vt


class SymbolicLoopValue(Exception):
    def __init__(self, v, name):
        Exception.__init__(self, "symbolic loop value")
        self.v, self.name = v, name


class SymFactory:
    """free symbols for template parameters and measured registers"""

    def __init__(self, alg, symbolic, regvals=None, parvals=None):
        self.alg = alg
        self.symbolic = symbolic
        self.regvals = regvals or {}
        self.parvals = parvals or {}
        self.pcache = {}
        self.rcache = {}

    def param(self, name):
        if self.symbolic:
            import z3
            if name not in self.pcache:
                self.pcache[name] = T.V("float", z3.Real("par_" + name))
            return self.pcache[name]
        if name not in self.parvals:
            # concrete comparison of templates: a fixed generic value per parameter name
            self.parvals[name] = 0.37 + 0.61 * len(self.parvals)
        return self.parvals[name]

    def reg(self, n):
        if self.symbolic:
            import z3
            if n not in self.rcache:
                self.rcache[n] = T.V("float", z3.Real("reg_%d" % n))
            return self.rcache[n]
        if n not in self.regvals:
            self.regvals[n] = 0.83 + 0.29 * len(self.regvals)
        return self.regvals[n]
