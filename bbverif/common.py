"""Shared infrastructure of the checks: tiers, evidence, known findings, replay files,
exit codes.  Exit codes: 0 held, 1 violation (with VIOLATION line), 2 harness error /
inconclusive beyond threshold."""
import json
import os
import sys
import time

ROOT = os.path.dirname(os.path.dirname(os.path.abspath(__file__)))
REPO = os.environ.get("BBVERIF_REPO", "/repo")
EVID = os.path.join(ROOT, "evidence")
REPLAYS = os.path.join(ROOT, "replays")
KNOWN = os.path.join(ROOT, "known_findings.json")
PY = sys.executable      # the checks already run under the overlay venv (also inside `vp run` snapshots, which have no .venv of their own)
NCPU = int(os.environ.get("BBVERIF_JOBS", os.cpu_count() or 4))


def tier():
    t = os.environ.get("VERIF_TIER", "quick")
    return t if t in ("quick", "thorough") else "quick"


def seed():
    try:
        return int(os.environ.get("VERIF_SEED", "0"))
    except ValueError:
        return 0


class HarnessError(Exception):
    """the machinery (not the code under test) is at fault -> exit 2"""


def known_findings(pid):
    if not os.path.exists(KNOWN):
        return []
    data = json.load(open(KNOWN))
    return [f for f in data.get("findings", []) if f.get("property") == pid and f.get("status") == "known"]


class Report:
    """Collects obligations, query statistics, violations; writes evidence; decides exit code."""

    def __init__(self, pid, level, title="", clear_replays=True):
        self.pid = pid
        self.level = level
        self.t0 = time.time()
        self.q = {"sat": 0, "unsat": 0, "unknown": 0}
        self.solver_s = 0.0
        self.obligations = []      # dicts: name, bound, result, queries, ...
        self.violations = []       # dicts: key, what, replay
        self.known_hits = []
        self.unconfirmed = []
        self.inconclusive = []
        self.samples = []
        self.functions = set()
        self.assumptions = []
        self.bounds = {}
        self.extra = {}
        self.evaluations = 0
        self.distinct = set()
        self.validated = 0
        self.rule = ""
        self.known = known_findings(pid)
        if clear_replays:
            import shutil
            shutil.rmtree(os.path.join(REPLAYS, pid), ignore_errors=True)
        self.states = 0
        self.transitions = 0

    # -- solver bookkeeping
    def count(self, res, dt=0.0):
        self.q[str(res) if str(res) in self.q else "unknown"] += 1
        self.solver_s += dt

    def merge_stats(self, st):
        for k in ("sat", "unsat", "unknown"):
            self.q[k] += st.get(k, 0)
        self.solver_s += st.get("solver_s", 0.0)

    def obligation(self, name, result, **kw):
        d = {"name": name, "result": result}
        d.update(kw)
        self.obligations.append(d)
        if result == "inconclusive":
            self.inconclusive.append(name)

    def sample(self, s, limit=12):
        if len(self.samples) < limit:
            self.samples.append(s)

    # -- violations
    def violation(self, key, what, replay_src=None, replay_name=None):
        """key: stable identifier of the failing input/call site (matched against known findings);
        replay_src: python source of a standalone replay script that exits 1 when the violation reproduces."""
        for f in self.known:
            if _match(f, key, what):
                if f["id"] not in [k["id"] for k in self.known_hits]:
                    self.known_hits.append({"id": f["id"], "what": f.get("what", what)})
                return False
        path = None
        if replay_src is not None:
            d = os.path.join(REPLAYS, self.pid)
            os.makedirs(d, exist_ok=True)
            path = os.path.join(d, (replay_name or ("v%03d" % len(self.violations))) + ".py")
            with open(path, "w") as fh:
                fh.write(replay_src)
        self.violations.append({"key": key, "what": what, "replay": path})
        return True

    # -- finish
    def finish(self):
        wall = time.time() - self.t0
        cov = {
            "evaluations": int(self.evaluations),
            "distinct_nontrivial": int(len(self.distinct)) if self.distinct else int(self.extra.get("distinct_nontrivial", 0)),
            "rule": self.rule,
            "samples": self.samples[:12] or ["(none)"],
            "obligations": len(self.obligations),
            "discharged": sum(1 for o in self.obligations if o["result"] in ("holds", "unsat")),
            "queries": dict(self.q),
            "solver_s": round(self.solver_s, 3),
            "bounds": self.bounds,
            "functions_encoded": sorted(self.functions),
            "obligation_list": self.obligations[:400],
            "traces_validated_against_impl": int(self.validated),
            "inconclusive": self.inconclusive[:50],
            "unconfirmed_models": self.unconfirmed[:50],
            "known_findings_hit": self.known_hits,
            "violation_list": self.violations[:50],
        }
        if self.states:
            cov["states"] = int(self.states)
            cov["transitions"] = int(max(self.transitions, 1))
        if self.level == "translation_validation":
            cov["programs"] = int(self.extra.get("programs", max(1, self.evaluations)))
            cov["disagreements_checked"] = int(self.extra.get("disagreements_checked", 0))
        for k, v in self.extra.items():
            cov.setdefault(k, v)
        ev = {
            "property_id": self.pid,
            "tier": tier(),
            "seed": seed(),
            "level": self.level,
            "coverage": cov,
            "assumptions": self.assumptions,
            "wall_s": round(wall, 3),
            "violations": len(self.violations),
        }
        os.makedirs(EVID, exist_ok=True)
        with open(os.path.join(EVID, self.pid + ".json"), "w") as fh:
            json.dump(ev, fh, indent=1, default=str)
        for k in self.known_hits:
            print("KNOWN-FINDING: property=%s %s" % (self.pid, k["what"]))
        for v in self.violations:
            print("VIOLATION property=%s replay=%s" % (self.pid, v["replay"]))
            print("  " + v["what"].replace("\n", "\n  "))
        nob = max(1, len(self.obligations))
        print("%s %s: %d obligations, queries %s, %d inconclusive, %d unconfirmed, %d known, %d violations, %.1fs"
              % (self.pid, tier(), len(self.obligations), self.q, len(self.inconclusive), len(self.unconfirmed),
                 len(self.known_hits), len(self.violations), wall))
        if self.violations:
            return 1
        if len(self.inconclusive) > max(2, nob // 100) or self.q["unknown"] * 20 > max(20, sum(self.q.values())):
            print("HARNESS: too many inconclusive obligations: %s" % self.inconclusive[:5])
            return 2
        if len(self.unconfirmed) > max(5, nob // 50):
            # many symbolic candidates that do not reproduce: the encoding does not follow this code (e.g. a library call the
            # stubs do not model) - the check cannot vouch for it
            print("HARNESS: %d symbolic candidates did not reproduce - the encoding does not follow this code; no verdict" % len(self.unconfirmed))
            return 2
        if cov["distinct_nontrivial"] < 2 or cov["evaluations"] < 1:
            print("HARNESS: coverage too small")
            return 2
        return 0


def _match(f, key, what):
    m = f.get("match")
    if m is None:
        return False
    if isinstance(m, str):
        m = [m]
    return any(x == key for x in m)


def pmap(fn, items, jobs=None):
    """process-parallel map preserving order; fn must be top-level picklable"""
    import multiprocessing as mp
    jobs = jobs or NCPU
    if jobs <= 1 or len(items) <= 1:
        return [fn(x) for x in items]
    ctx = mp.get_context("fork")
    with ctx.Pool(min(jobs, len(items))) as pool:
        return pool.map(fn, items, chunksize=1)
