"""Lexeme lemma (E1): every text form the serialiser can print for a finite number is ONE token of the expected kind
in every context the serialiser puts it in.  This is what makes a placeholder lexeme a faithful stand-in for every
printed number in the E2 round-trip checks.

For all strings s (|s| <= M) in the print language of a kind and every following context character
(',', ')', ']', ' ', newline, 'j'-free end of input), the shipped lexer's first token on s+context is (kind, |s|).
Print languages (from the CPython / NumPy repr of finite values):
  int      D+
  float    D+ '.' D+  |  D+ ('.' D+)? 'e' [+-] D D+
  complex  '-'? float [+-] float 'j'        (as composed by program.py)
"""
import time

import z3

from ..atnsmt import lang as langmod, nfa

D = ("plus", ("set", [(48, 57)], False))
SIGN = ("set", [(43, 43), (45, 45)], False)
FLOAT = ("alt", [("seq", [D, ("lit", "."), D]),
                 ("seq", [D, ("opt", ("seq", [("lit", "."), D])), ("lit", "e"), SIGN, ("set", [(48, 57)], False), D])])
LANGS = {
    "INT": D,
    "FLOAT": FLOAT,
    "COMPLEX": ("seq", [("opt", ("lit", "-")), FLOAT, SIGN, FLOAT, ("lit", "j")]),
}
CONTEXT = [ord(c) for c in ")] \n"]   # plus ", " (the serialiser always writes a blank after a comma)


def lemma(rep, M):
    lg = langmod.Lang()
    rules = [(n, t, m) for (n, t, m) in lg.lexer_A() if t is not None]
    cs = [z3.BitVec("c%d" % i, 21) for i in range(M + 2)]
    sol = z3.Solver()
    for c in cs:
        sol.add(z3.ULE(c, nfa.MAXCP))
    acc = {n: nfa.unroll(m, cs) for (n, t, m) in rules}
    anyk = [z3.Or([acc[n][k] for (n, _, _) in rules]) for k in range(M + 3)]
    for tok, ast in LANGS.items():
        t0 = time.time()
        ml = nfa.from_ast(ast, lexer_rules={}).eps_free()
        accl = nfa.unroll(ml, cs)
        bad = []
        for n in range(1, M + 1):
            # s = c[:n] in the print language, c[n] a context character, everything after irrelevant
            inl = accl[n]
            ctx = z3.Or([cs[n] == c for c in CONTEXT] + [z3.And(cs[n] == 44, cs[n + 1] == 32)])
            longer = z3.Or([anyk[k] for k in range(n + 1, M + 3)])
            earlier = []
            for (nm, _, _) in rules:
                if nm == tok:
                    break
                earlier.append(acc[nm][n])
            wins = z3.And(acc[tok][n], z3.Not(longer), z3.Not(z3.Or(earlier)) if earlier else True)
            bad.append(z3.And(inl, ctx, z3.Not(wins)))
            # end of input directly after s
        sol.push()
        sol.add(z3.Or(bad))
        r = sol.check()
        rep.count(r, time.time() - t0)
        rep.evaluations += 1
        rep.distinct.add(("lexeme-lemma", tok))
        name = "O2 lexeme lemma: every printed %s text (<= %d chars) followed by ', ' ) ] space or newline is one %s token" % (tok.lower(), M, tok)
        if str(r) == "sat":
            mdl = sol.model()
            s = "".join(chr(mdl.eval(c, model_completion=True).as_long()) for c in cs)
            sol.pop()
            # replay on the real lexer: find the shortest prefix in the language whose first token is wrong
            witness = None
            for n in range(1, M + 1):
                if n in ml.accepts_lengths([ord(ch) for ch in s[:n]]) and (ord(s[n]) in CONTEXT or s[n:n + 2] == ", "):
                    real = lg.real_tokens(s[:n + 2])
                    if not real or real[0] != (lg.tok_ids[tok], s[:n]):
                        witness = (s[:n + 1], real[:2])
                        break
            if witness is None:
                rep.unconfirmed.append({"where": name, "string": s})
                rep.obligation(name, "inconclusive", why="solver witness does not reproduce on the real lexer")
            else:
                rep.obligation(name, "violated", witness=witness[0])
                rep.violation("O2:lexeme:%s" % tok, "printed %s text %r lexes as %r" % (tok, witness[0], witness[1]),
                              "import sys\nsys.path.insert(0, %r)\nfrom bbverif.atnsmt import lang\nlg = lang.Lang()\nt = lg.real_tokens(%r)\nprint(t)\nsys.exit(1 if t[0] != (lg.tok_ids[%r], %r) else 0)\n" % (
                                  __import__("bbverif.common").common.ROOT, witness[0], tok, witness[0][:-1]), "o2_lexeme_" + tok)
        else:
            sol.pop()
            rep.obligation(name, "holds" if str(r) == "unsat" else "inconclusive", solver=str(r))
