"""C09 - programs assembled through the API serialise to valid, equivalent scripts.

Programs are built directly (operation dicts, target/type options) from proxies of each supported kind and type tag
(python / NumPy ints, floats, complex, bools, strings, lists, 2-D arrays, SymPy expressions) in positional, keyword,
mode and option position.  The real serialize() runs on the proxies (text with placeholder lexemes, forks on signs),
the real loads() re-parses that text symbolically, and z3 decides whether any value makes the re-loaded program differ.
Lexeme lemma (E1): every text form a printed number can take is one token of the expected kind.
"""
import itertools
import sys

import numpy as np
import sympy
import z3

from .. import common
from ..pysym import engine, proxies as P, stubs, terms as T
from . import _script, _util as U, _equiv

PID = "C09"
MOD = "bbverif.checks.c09"

SCALARS = ["int", "float", "complex", "np.int64", "np.float64", "np.complex128", "true", "false", "np.bool",
           "str", "str_space", "str_digit", "str_pname", "str_backslash", "str_backslash2", "str_hash", "str_unicode", "str_brackets"]
LISTS = ["list_int", "list_float", "list_npint", "list_npfloat", "list_mixed", "list_str", "list_complex", "list_bool", "list_npcomplex", "list_one"]
ARRAYS = ["arr_int_1x1", "arr_int_2x3", "arr_float_2x2", "arr_float_1x3", "arr_complex_2x2", "arr_complex_1x1", "arr_float_3x1", "arr_int_2x2", "arr_int_1x3", "arr_complex_1x3",
          "arr_float_1x1", "arr_float_1x4", "arr_float_1x12", "arr_int_11x1"]     # incl. dimensions of two digits
# several arrays in one program whose values may coincide while shape or element type differ (the solver is free to make them equal)
ARRAY_PAIRS = [("arr_float_2x2", "arr_int_2x2"), ("arr_int_2x2", "arr_float_2x2"), ("arr_float_1x3", "arr_complex_1x3"), ("arr_int_1x3", "arr_float_1x3"),
               ("arr_float_1x1", "arr_complex_1x1"), ("arr_int_1x1", "arr_float_1x1"), ("arr_float_2x2", "arr_float_1x4"), ("arr_float_2x2", "arr_float_2x2")]
SYMS = ["sym_param", "sym_affine", "sym_two", "sym_pow"]
MODEKINDS = ["int1", "npint1", "list_int", "list_npint", "list_mixed"]
EDGE = [-0.0, 1e-300, 1e300, 5e-324, 1e16, 1.5e-07, 123456789.125, -1e-05, complex(-0.0, 2.0), complex(1.5, -0.0), complex(-1e-300, -1e300),
        np.float64(-0.0), np.float64(1e-310), np.complex128(complex(0.0, -0.0)), np.int64(-2 ** 63), 2 ** 62, np.float32(0.1) * 0 + 0.5]

EDGE_PAIRS = [([[0.0, 1.0]], [[-0.0, 1.0]]), ([[1, 0], [0, 1]], [[1.0, 0.0], [0.0, 1.0]]), ([[0.0, 0.0]], [[0, 0]]), ([[1.0, 2.0]], [[1 + 0j, 2 + 0j]]),
              ([[1, 0, 0, 1]], [[1, 0], [0, 1]]), ([[-0.0]], [[0.0]]),
              ([[10 * r + c for c in range(10)] for r in range(10)], [[0.5 * r - c for c in range(10)] for r in range(12)]),
              ([[1.5] * 101], [[complex(r, -r)] for r in range(100)]),
              ([[0.5 * c for c in range(1001)]], [[31 * r + c for c in range(31)] for r in range(33)]),
              ([[complex(r, c) for c in range(40)] for r in range(26)], [[r] for r in range(1200)])]

# the same array values in other memory layouts (transposed / reversed / Fortran-ordered views): what is serialised is the
# array's *contents*, row by row.  (Object arrays that mix SymPy expressions with numbers are not among the supported values
# of the property; their determinism across hash seeds is C19's.)
def _views():
    out = []
    for dt in (np.int64, np.float64, np.complex128):
        base = (np.arange(6).reshape(2, 3) * (1.5 if dt is not np.int64 else 1) + (0.25j if dt is np.complex128 else 0)).astype(dt)
        out += [("%s transposed" % dt.__name__, base.T), ("%s rows reversed" % dt.__name__, base[::-1]), ("%s columns reversed" % dt.__name__, base[:, ::-1]),
                ("%s fortran order" % dt.__name__, np.asfortranarray(base)), ("%s every other column" % dt.__name__, np.arange(12).reshape(2, 6).astype(dt)[:, ::2]),
                ("%s rot90" % dt.__name__, np.rot90(base))]
    return out


VIEWS = _views()

TAGS = {"int": int, "float": float, "complex": complex, "np.int64": np.int64, "np.float64": np.float64, "np.complex128": np.complex128}


class Vals:
    """value source: symbolic (signed z3 variables wrapped in proxies) or concrete (from a list)"""

    def __init__(self, values=None):
        self.symbolic = values is None
        self.values = values
        self.vars = []
        self.n = 0

    def _next(self, kind):
        i = self.n
        self.n += 1
        if self.symbolic:
            v = z3.Int("a%d" % i) if kind == "int" else z3.Real("a%d" % i)
            self.vars.append(("a%d" % i, kind, v))
            return v
        return self.values[i]

    def num(self, tagname):
        tag = TAGS[tagname]
        k = P.KIND_OF[tag]
        if k == "complex":
            re, im = self._next("float"), self._next("float")
            if self.symbolic:
                return P.SNum(T.V("complex", re, im), tag)
            return tag(complex(float(re), float(im)))
        x = self._next(k)
        if self.symbolic:
            return P.SNum(T.V(k, x), tag)
        return tag(x)

    def model_values(self, mdl):
        out = []
        for (_, kind, v) in self.vars:
            e = mdl.eval(v, model_completion=True)
            out.append(z3.simplify(e).as_long() if kind == "int" else T._ratf(e))
        return out


def make_value(kind, vs):
    import sympy
    if kind in TAGS:
        return vs.num(kind)
    if kind == "true":
        return True
    if kind == "false":
        return False
    if kind == "np.bool":
        return np.bool_(True)
    if kind == "str":
        return "abc"
    if kind == "str_space":
        return "hello world_1"
    if kind == "str_digit":
        return "1x"
    if kind == "str_pname":
        return "p1"
    if kind == "str_backslash":
        return "\\theta_1 C:\\new\\table"
    if kind == "str_backslash2":
        return "a\\\\b\\u12 end\\"
    if kind == "str_hash":
        return "#not a comment, {x} | [0]"
    if kind == "str_unicode":
        return "\u00e9\u03b1 \u2028x"
    if kind == "str_brackets":
        return "(a[1]=2*3)'"
    if kind == "list_int":
        return [vs.num("int"), vs.num("int"), vs.num("int")]
    if kind == "list_float":
        return [vs.num("float"), vs.num("float")]
    if kind == "list_npint":
        return [vs.num("np.int64"), vs.num("np.int64")]
    if kind == "list_npfloat":
        return [vs.num("np.float64"), vs.num("float")]
    if kind == "list_npcomplex":
        return [vs.num("np.complex128")]
    if kind == "list_mixed":
        return [vs.num("int"), vs.num("np.float64"), "s", True]
    if kind == "list_str":
        return ["a", "b c"]
    if kind == "list_complex":
        return [vs.num("complex"), vs.num("float")]
    if kind == "list_bool":
        return [True, False]
    if kind == "list_one":
        return [vs.num("float")]
    if kind.startswith("arr_"):
        _, dt, shape = kind.split("_")
        r, c = (int(x) for x in shape.split("x"))
        tagname = {"int": "np.int64", "float": "np.float64", "complex": "np.complex128"}[dt]
        elems = [vs.num(tagname) for _ in range(r * c)]
        if vs.symbolic:
            return stubs.make_sarray(elems, np.dtype(TAGS[tagname]), (r, c))
        return np.array(elems, dtype=TAGS[tagname]).reshape(r, c)
    a, b = sympy.Symbol("alpha"), sympy.Symbol("beta_1")
    if kind == "sym_param":
        return a
    if kind == "sym_affine":
        return 2 * a + 1
    if kind == "sym_two":
        return a * b - 3 * a
    if kind == "sym_pow":
        return a ** 2 / 4 + b
    raise ValueError(kind)


def build(spec, vs):
    from blackbird import BlackbirdProgram
    import sympy
    prog = BlackbirdProgram(name="c09", version="1.0")
    kind = spec[0]

    def add_params(val):
        if isinstance(val, sympy.Basic):
            for s in sorted(val.free_symbols, key=str):
                if s not in prog._parameters:
                    prog._parameters.append(s)

    def op_for(slot, vk, idx, mode=None):
        val = make_value(vk, vs)
        add_params(val)
        m = [mode if mode is not None else idx]
        if slot == "pos":
            return {"op": "G%d" % idx, "args": [val], "kwargs": {}, "modes": m}
        if slot == "pos2":
            return {"op": "G%d" % idx, "args": [make_value("float", vs), val, make_value("int", vs)], "kwargs": {}, "modes": m}
        if slot == "kw":
            return {"op": "G%d" % idx, "args": [], "kwargs": {"key": val}, "modes": m}
        if slot == "poskw":
            return {"op": "G%d" % idx, "args": [make_value("np.float64", vs)], "kwargs": {"a": val, "b": make_value("int", vs)}, "modes": m}
        raise ValueError(slot)

    if kind == "val":
        _, slot, vk = spec
        if slot in ("opt_target", "opt_type"):
            val = make_value(vk, vs)
            prog._target["name"] = "X8"
            if slot == "opt_target":
                prog._target["options"] = {"opt": val, "shots": make_value("int", vs)}
            else:
                prog._type["name"] = "mytype"
                prog._type["options"] = {"copies": make_value("np.int64", vs), "opt": val}
            prog._operations.append({"op": "Vac", "modes": [0]})
        else:
            prog._operations.append(op_for(slot, vk, 0))
    elif kind == "mode":
        mk = spec[1]
        modes = {"int1": lambda: [vs.num("int")], "npint1": lambda: [vs.num("np.int64")],
                 "list_int": lambda: [vs.num("int"), vs.num("int")], "list_npint": lambda: [vs.num("np.int64"), vs.num("np.int64")],
                 "list_mixed": lambda: [vs.num("int"), vs.num("np.int64"), vs.num("int")]}[mk]()
        if spec[2] == "noargs":
            prog._operations.append({"op": "Vac", "modes": modes})
        else:
            prog._operations.append({"op": "Dgate", "args": [make_value("float", vs)], "kwargs": {}, "modes": modes})
    elif kind == "multi":
        for idx, (slot, vk) in enumerate(spec[1]):
            if slot == "noargs":
                prog._operations.append({"op": "N%d" % idx, "modes": [idx]})
            else:
                prog._operations.append(op_for(slot, vk, idx))
    elif kind == "edgepair":
        a, b = EDGE_PAIRS[spec[1]]
        prog._operations.append({"op": "G", "args": [np.array(a)], "kwargs": {"k": np.array(b)}, "modes": [0]})
        prog._operations.append({"op": "H", "args": [np.array(b), np.array(a)], "kwargs": {}, "modes": [1]})
    elif kind == "view":
        arr = VIEWS[spec[1]][1]
        for e in np.ndarray.flatten(arr):
            add_params(e)
        prog._operations.append({"op": "G", "args": [arr], "kwargs": {"k": arr}, "modes": [0]})
    elif kind == "edge":
        _, slot, i = spec
        v = EDGE[i]
        if slot == "arr":
            arr = np.array([[v, 1], [2, v]], dtype=np.complex128 if isinstance(v, (complex, np.complexfloating)) else (np.int64 if isinstance(v, (int, np.integer)) else np.float64))
            prog._operations.append({"op": "G", "args": [arr], "kwargs": {}, "modes": [0]})
        elif slot == "pos":
            prog._operations.append({"op": "G", "args": [v], "kwargs": {}, "modes": [0]})
        elif slot == "kw":
            prog._operations.append({"op": "G", "args": [], "kwargs": {"k": v}, "modes": [0]})
        elif slot == "list":
            prog._operations.append({"op": "G", "args": [], "kwargs": {"k": [v, 1]}, "modes": [0]})
        else:
            prog._target["name"] = "X8"
            prog._target["options"] = {"o": v}
            prog._operations.append({"op": "Vac", "modes": [0]})
    return prog


def gen_specs(tier, seed):
    specs = []
    for vk in SCALARS + SYMS:
        for slot in ("pos", "kw", "pos2", "poskw"):
            specs.append(("val", slot, vk))
    for vk in ARRAYS:
        for slot in ("pos", "kw", "poskw"):
            if slot == "poskw" and vk in ("arr_float_1x12", "arr_int_11x1"):
                continue        # (two arrays of a dozen symbolic elements: path explosion in number formatting)
            specs.append(("val", slot, vk))
    for vk in LISTS:
        for slot in ("kw", "poskw"):
            specs.append(("val", slot, vk))
    for vk in SCALARS + LISTS:
        if not vk.startswith("sym"):
            specs.append(("val", "opt_target", vk))
            specs.append(("val", "opt_type", vk))
    for mk in MODEKINDS:
        specs.append(("mode", mk, "noargs"))
        specs.append(("mode", mk, "args"))
    pool = [("pos", "float"), ("kw", "np.int64"), ("pos", "arr_float_2x2"), ("kw", "arr_int_2x3"), ("noargs", None), ("pos", "complex"),
            ("kw", "list_mixed"), ("pos", "sym_affine"), ("kw", "str"), ("pos", "arr_complex_1x1"), ("poskw", "np.complex128")]
    combos = list(itertools.permutations(pool, 2))
    if tier == "quick":
        combos = combos[::4]
    else:
        combos += list(itertools.permutations(pool, 3))[::6]
    for c in combos:
        specs.append(("multi", tuple(c)))
    specs.append(("multi", ()))                 # the small end: a program without operations
    for a, b in ARRAY_PAIRS:
        specs.append(("multi", (("pos", a), ("pos", b))))
        specs.append(("multi", (("kw", a), ("pos", b), ("noargs", None))))
    for i in range(len(EDGE_PAIRS)):
        specs.append(("edgepair", i))
    for i in range(len(EDGE)):
        for slot in ("pos", "kw", "list", "opt", "arr"):
            specs.append(("edge", slot, i))
    specs += [("view", i) for i in range(len(VIEWS))]
    return specs


def run_spec(spec):
    w = _script.winit()
    bb = w["bb"]
    out = {"spec": spec, "result": "holds", "paths": 0, "stats": None, "why": None, "cex": None, "funcs": [], "reach": 0}
    if spec[0] in ("edge", "edgepair", "view"):
        r = concrete_check(spec, [], w)
        out.update(text=("edge value %r in slot %s (concrete instantiation)" % (EDGE[spec[2]], spec[1])) if spec[0] == "edge" else
                   ("array view: %s (concrete instantiation)" % VIEWS[spec[1]][0]) if spec[0] == "view" else
                   "arrays %r and %r in one program (concrete instantiation)" % EDGE_PAIRS[spec[1]], paths=1, reach=1, validated=1)
        if isinstance(r, dict):
            r["symbolic_what"] = r["what"]
            out.update(result="violation", cex=r)
        return out
    vs = Vals()
    reg = P.reset_registry()
    E = engine.Engine(max_paths=6000)
    E.reset_hooks.append(stubs.reset_tables)
    holder = {}

    def run():
        v = Vals()
        prog = build(spec, v)
        vs.vars = v.vars
        holder["prog"] = prog
        text = bb.dumps(prog)
        holder["text"] = text
        q = bb.loads(text)
        return (prog, text, q)

    with U.coverage(out["funcs"]):
        try:
            paths = E.explore(run)
        except engine.PathLimit as e:
            out.update(result="inconclusive", why=str(e), stats=E.stats)
            return out
    out["paths"] = len(paths)
    out["text"] = "program %r -> %s" % (spec, (holder.get("text") or "")[:300])
    conc = lambda vals: concrete_check(spec, vals, w)  # noqa
    for pth in paths:
        if pth.kind == "abort":
            out.update(result="inconclusive", why="abort: %s" % pth.value)
            continue
        out["reach"] += 1
        cands = []
        if pth.kind == "exc":
            cands.append(("dumps/loads raises %s: %s" % (type(pth.value).__name__, str(pth.value)[:160]), z3.BoolVal(True)))
        else:
            prog, text, q = pth.value
            eq = _equiv.Eq(True)
            try:
                eq.program(prog, q)
            except engine.Abort as e:
                out.update(result="inconclusive", why="abort in comparison: %s" % e)
                continue
            for desc, cond in eq.out:
                cands.append((desc, z3.BoolVal(True) if cond is True else E.specialize(pth, cond)))
        for desc, cond in cands:
            res, cex = U.find_replayable(E, pth, cond, vs, conc)
            if res == "unsat":
                continue
            if res == "unknown":
                out.update(result="inconclusive", why="solver unknown: " + desc)
                continue
            if res == "unconfirmed":
                out.setdefault("unconfirmed", []).append({"what": desc, "text": out["text"]})
                continue
            cex["symbolic_what"] = desc
            out.update(result="violation", cex=cex, stats=E.stats)
            return out
    out["stats"] = E.stats
    if out["result"] in ("holds", "inconclusive"):
        U.validate_native(E, paths, vs, conc, out, nmax=1)
    return out


def concrete_check(spec, vals, w=None):
    import blackbird
    import blackbird.auxiliary as aux
    prog = build(spec, Vals(values=vals))
    base = {"values": vals, "text": "program built through the API: %r" % (prog.operations,)}
    aux._VAR.clear()
    aux._PARAMS.clear()
    try:
        text = blackbird.dumps(prog)
    except Exception as e:  # noqa
        return dict(base, what="dumps raises %s" % type(e).__name__, observed="%s: %s" % (type(e).__name__, e), expected="a valid script")
    base["text"] += "\nserialised as:\n" + text
    try:
        with np.errstate(all="ignore"):
            q = blackbird.loads(text)
    except Exception as e:  # noqa
        return dict(base, what="the serialised script is rejected: %s" % type(e).__name__, observed="%s: %s" % (type(e).__name__, str(e)[:300]), expected="a script the parser accepts")
    finally:
        aux._VAR.clear()
        aux._PARAMS.clear()
    eq = _equiv.Eq(False)
    eq.program(prog, q)
    if not eq.out:
        return None
    return dict(base, what=eq.out[0][0], observed="; ".join(d for d, _ in eq.out[:4]), expected="the same program")


REPLAY = '''#!/usr/bin/env python
# C09 replay: builds the program through the API with concrete values, dumps it, loads the text, compares.
import sys; sys.path.insert(0, %(root)r)
from bbverif.checks import c09
r = c09.concrete_check(%(spec)r, %(vals)r)
if r is None:
    print("round trip ok"); sys.exit(0)
print(r["text"]); print("what    :", r["what"]); print("observed:", r["observed"]); print("expected:", r["expected"]); sys.exit(1)
'''


def main():
    t = common.tier()
    rep = common.Report(PID, "model_checking")
    rep.rule = ("one case = one API-built program (value kind/type tag x slot, mode lists, multi-operation mixes) serialised and re-loaded symbolically, "
                "all numeric values solver variables (signed); 'edge' cases are concrete instantiations of special floats (negative zero, subnormal, 1e+-300)")
    rep.bounds = {"arrays": "<=2x3 symbolic, 1x12 and 11x1 symbolic, up to 12x10 / 100x1 concrete, 18 concrete views (transposed, reversed, strided, Fortran order, rot90)", "lists": "<=4 elements", "operations": "<=2 (quick) / <=3 (thorough)", "strings": "fixed quote-free samples"}
    rep.assumptions = [
        "floats are reals in the symbolic runs: exponent-format and special values are covered by the lexeme lemma (C01/C09 O2) and the concrete edge cases",
        "text forms of proxies are learned from the real types at run time (str/repr/format of an exemplar), placeholders stand for the digits",
        "outside: arrays as option values, 1-D arrays, non-finite values, strings with quotes",
    ]
    specs = gen_specs(t, common.seed())
    results = U.run_parallel(run_spec, specs)
    U.collect(rep, results, key_fn=lambda r: _script.default_key(r),
              replay_fn=lambda r: REPLAY % {"root": common.ROOT, "spec": r["spec"], "vals": r["cex"]["values"]},
              sample_fn=lambda r: {"case": r["text"], "paths": r["paths"]})
    try:
        from . import _lexemes
        _lexemes.lemma(rep, 20 if t == "quick" else 26)
    except Exception as e:  # noqa
        rep.obligation("O2 lexeme lemma", "inconclusive", why=repr(e))
    return rep.finish()


if __name__ == "__main__":
    sys.exit(main())
