"""Generic driver for script-level properties: one skeleton script is executed symbolically through the
real blackbird.loads, the reference interpreter enumerates its own case splits, every (implementation path,
reference case) pair that is jointly satisfiable is compared, and every solver model is replayed concretely.

A check module supplies  gen(spec, lv) -> dict(text=..., pre=[z3 Bool...], what=(...))  and its spec list.
"""
import os
import re
import sys

import numpy as np
import z3

from .. import common
from ..pysym import engine, proxies as P, stubs, terms as T, skel
from ..ref import expr as RX, interp as RI
from . import _util as U, _cmp

_W = {}


def winit():
    if "mods" not in _W:
        _W["mods"] = stubs.install()
        from ..atnsmt import lang as langmod
        _W["lang"] = langmod.Lang()
        import blackbird
        _W["bb"] = blackbird
    return _W


def plain_env():
    """environment without stubs (pristine replay)"""
    from ..atnsmt import lang as langmod
    import blackbird
    return {"bb": blackbird, "lang": langmod.Lang()}


def exc_ok_for(rej, exc):
    """does the raised exception satisfy what the property demands for this rejection?"""
    from blackbird.error import BlackbirdSyntaxError
    if rej.kind in ("undefined", "reserved"):
        if not isinstance(exc, BlackbirdSyntaxError):
            return False, "must be a BlackbirdSyntaxError naming %r at line %s column %s; raised %s: %s" % (
                rej.ident, rej.line, rej.col, type(exc).__name__, exc)
        msg = str(exc.args[0]) if exc.args else str(exc)
        if rej.ident not in msg or not re.search(r"line %d:(%d|%d)\b" % (rej.line, rej.col, rej.col + 1), msg):
            return False, "BlackbirdSyntaxError does not name %r with line %s and column %s: %r" % (rej.ident, rej.line, rej.col, msg)
        return True, ""
    return True, ""


def ref_cases(w, text, lv, symbolic, params=None, files=None, parvals=None, regvals=None):
    toks = w["lang"].real_tokens_pos(text)
    alg = T.Z3Alg if symbolic else T.PyAlg

    def mk(forks):
        it = RI.Interp(toks, alg, lv.leaf, symbolic, params=params, files=files)
        if parvals or regvals:
            it.symfactory = RI.SymFactory(alg, symbolic, regvals=regvals, parvals=parvals)
        return it

    return RI.run_all(mk)


def run_spec(arg):
    """arg = (module name, spec)"""
    modname, spec = arg
    mod = sys.modules.get(modname) or __import__(modname, fromlist=["x"])
    w = winit()
    bb = w["bb"]
    out = {"spec": spec, "result": "holds", "paths": 0, "stats": None, "why": None, "cex": None, "funcs": [], "reach": 0}
    if spec and spec[0] in getattr(mod, "SPECIAL", ()):
        # cases of a check module that are concrete by nature (values outside the number model): one native run, own oracle
        r = mod.special_check(spec, [], plain_env())
        out.update(paths=1, reach=1, validated=1, text=mod.special_text(spec))
        if isinstance(r, dict):
            r.setdefault("values", [])
            r["symbolic_what"] = r.get("what")
            out.update(result="violation", cex=r)
        return out
    lv = skel.Leaves()
    g = mod.gen(spec, lv)
    text = g["text"]
    out["text"] = text
    what = g.get("what", ("meta", "ops", "modes", "vars", "params"))
    if g.get("concrete_only"):
        # skeletons whose comparison needs float tolerance (coefficients that are not dyadic go through SymPy's own float
        # arithmetic): native runs on a few valuations against the exact reference, no solver verdict
        nv = len(lv.vars)
        out.update(paths=1, reach=1, validated=0)
        for base in (0, 1, 2):
            vals = [(0.5 + 0.75 * ((i + base) % 5) if k == "float" else 2 + ((3 * i + base) % 7)) for i, (_, k, _) in enumerate(lv.vars)]
            r = concrete_check(mod, spec, vals, plain_env())
            out["validated"] += 1
            if isinstance(r, dict):
                r["symbolic_what"] = r.get("what")
                out.update(result="violation", cex=r)
                break
        return out
    try:
        cases = ref_cases(w, text, lv, True)
    except RX.RefError as e:
        out["result"] = "inconclusive"
        out["why"] = "reference: %s" % e
        return out
    E = engine.Engine(max_paths=g.get("max_paths", 600))
    E.reset_hooks.append(stubs.reset_tables)
    E.base = list(lv.cons) + list(g.get("pre", []))
    # explore only inside the property's domain (reference-side domain conditions, per reference case)
    doms = [z3.And([z3.BoolVal(True)] + list(rc) + list(it.dom.conds)) for (rc, ro, it) in cases]
    if doms:
        E.base.append(z3.simplify(z3.Or(doms)))

    def run():
        p = bb.loads(text)
        return g["post"](p) if g.get("post") else p       # a later use of the returned object (copy, ...) before it is inspected

    if g.get("order"):
        from ..pysym import order
        order.install()
        order.SITES.clear()
    try:
        with U.coverage(out["funcs"]):
            try:
                paths = E.explore(run)
            except engine.PathLimit as e:
                out["result"] = "inconclusive"
                out["why"] = str(e)
                out["stats"] = E.stats
                return out
    finally:
        if g.get("order"):
            order.deactivate()
            out["order_sites"] = dict(order.SITES)
    out["paths"] = len(paths)
    out["refcases"] = len(cases)
    conc = lambda vals: concrete_check(mod, spec, vals, w)  # noqa
    for pth in paths:
        if pth.kind == "abort":
            out["result"] = "inconclusive"
            out["why"] = "abort: %s" % pth.value
            continue
        for (rconds, routcome, it) in cases:
            joint = list(rconds) + list(it.dom.conds)
            r0, _ = E.query(pth, z3.BoolVal(True), extra=joint)
            if r0 == "unsat":
                continue
            if r0 != "sat":
                out["result"] = "inconclusive"
                out["why"] = "solver %s on joint condition" % r0
                continue
            out["reach"] += 1
            cands = []
            if routcome[0] == "reject":
                rej = routcome[1]
                if pth.kind == "ok":
                    cands.append(("a program is returned although the script must be refused (%s %s)" % (rej.kind, rej.ident or ""), z3.BoolVal(True)))
                else:
                    ok, why = exc_ok_for(rej, pth.value)
                    if not ok:
                        cands.append((why, z3.BoolVal(True)))
            else:
                rp = routcome[1]
                if pth.kind == "exc":
                    if not g.get("refusal_also_ok"):
                        cands.append(("raises %s: %s" % (type(pth.value).__name__, str(pth.value)[:200]), z3.BoolVal(True)))
                else:
                    c = _cmp.Cmp(True, it.symfactory)
                    try:
                        c.program(pth.value, rp, what)
                        if "extra_compare" in g:
                            g["extra_compare"](c, pth.value, rp)
                    except engine.Abort as e:
                        out["result"] = "inconclusive"
                        out["why"] = "abort in comparison: %s" % e
                        continue
                    for desc, cond in c.out:
                        cands.append((desc, z3.BoolVal(True) if cond is True else E.specialize(pth, cond)))
            for desc, cond in cands:
                pj = engine.Path(pth.pc + joint, pth.decisions, pth.kind, pth.value, pth.notes)
                res, cex = U.find_replayable(E, pj, cond, lv, conc)
                if res == "unsat":
                    continue
                if res == "unknown":
                    out["result"] = "inconclusive"
                    out["why"] = "solver unknown: " + desc
                    continue
                if res == "unconfirmed":
                    out.setdefault("unconfirmed", []).append({"what": desc, "text": text})
                    continue
                out["result"] = "violation"
                cex["what"] = cex.get("what") or desc
                cex["symbolic_what"] = desc
                out["cex"] = cex
                out["stats"] = E.stats
                return out
    out["stats"] = E.stats
    if out["reach"] == 0 and out["result"] == "holds":
        out["result"] = "inconclusive"
        out["why"] = "vacuous: no (path, reference case) pair is satisfiable"
    if out["result"] in ("holds", "inconclusive"):
        # (native validation runs do not depend on whether the symbolic run reached a verdict)
        U.validate_native(E, paths, lv, conc, out, big=g.get("big_ints", True))
    return out


def concrete_check(mod, spec, vals, w=None):
    """real loads on concrete literals vs. the concrete reference.  None: property holds for these values;
    'skip': outside the domain; dict: mismatch"""
    w = w or plain_env()
    bb = w["bb"]
    if spec and spec[0] in getattr(mod, "SPECIAL", ()):
        return mod.special_check(spec, vals, w)
    lv = skel.Leaves(values=vals)
    g = mod.gen(spec, lv)
    text = g["text"]
    what = g.get("what", ("meta", "ops", "modes", "vars", "params"))
    T.PyAlg.overflow = False
    T.PyAlg.fscale = 0.0
    try:
        cases = ref_cases(w, text, lv, False)
    except (RX.RefError, ArithmeticError, ValueError):
        return "skip"       # the exact value does not exist / the reference does not cover the script
    except Exception as e:  # noqa
        raise common.HarnessError("reference interpreter failed on %r: %r" % (text, e))
    (rconds, routcome, it) = cases[0]
    if not it.dom.ok or T.PyAlg.overflow:
        return "skip"
    import blackbird.auxiliary as aux
    aux._VAR.clear()
    aux._PARAMS.clear()
    exc = None
    ip = None
    try:
        with np.errstate(all="ignore"):
            import warnings
            with warnings.catch_warnings():
                warnings.simplefilter("ignore")
                ip = bb.loads(text)
                if g.get("post"):
                    ip = g["post"](ip)
    except Exception as e:  # noqa
        exc = e
    finally:
        aux._VAR.clear()
        aux._PARAMS.clear()
    base = {"text": text, "values": vals}
    if routcome[0] == "reject":
        rej = routcome[1]
        if exc is None:
            return dict(base, what="a program is returned although the script must be refused (%s %s)" % (rej.kind, rej.ident or ""),
                        observed="program with %d operations" % len(ip.operations), expected="an exception")
        ok, why = exc_ok_for(rej, exc)
        if ok:
            return None
        return dict(base, what=why, observed="%s: %s" % (type(exc).__name__, exc), expected="BlackbirdSyntaxError naming %r at %s:%s" % (rej.ident, rej.line, rej.col))
    rp = routcome[1]
    if exc is not None and g.get("refusal_also_ok"):
        return None
    if exc is not None:
        return dict(base, what="raises %s: %s" % (type(exc).__name__, str(exc)[:200]), observed="%s: %s" % (type(exc).__name__, exc), expected="a program")
    c = _cmp.Cmp(False, it.symfactory)
    try:
        c.program(ip, rp, what)
        if "extra_compare" in g:
            g["extra_compare"](c, ip, rp)
    except Exception as e:  # noqa
        return dict(base, what="comparison failed: %r" % (e,), observed=repr(e), expected="comparable program")
    if not c.out:
        return None
    return dict(base, what=c.out[0][0], observed="; ".join(d for d, _ in c.out[:4]), expected="as written (reference interpreter)")


REPLAY = '''#!/usr/bin/env python
# replay: loads one concrete script with the real blackbird (no stubs) and compares with the reference interpreter;
# exit 1 if the property is violated for these values.
import sys; sys.path.insert(0, %(root)r)
from bbverif.checks import _script
sys.exit(_script.replay(%(mod)r, %(spec)r, %(vals)r))
'''


def replay(modname, spec, vals):
    mod = __import__(modname, fromlist=["x"])
    r = concrete_check(mod, spec, vals)
    if r in (None, "skip"):
        print("property holds for these values" if r is None else "outside the domain")
        return 0
    print("script:\n" + r["text"])
    print("what    :", r["what"])
    print("observed:", r["observed"])
    print("expected:", r["expected"])
    return 1


def replay_src(modname):
    def f(r):
        return REPLAY % {"root": common.ROOT, "mod": modname, "spec": r["spec"], "vals": r["cex"]["values"]}
    return f


def default_key(r):
    w = r["cex"].get("symbolic_what") or r["cex"]["what"]
    w = re.sub(r"9\d{6}(\.5)?", "#", w)
    w = re.sub(r"\d+", "N", w)
    return w[:160]
