"""helpers shared by the E2 checks"""
import contextlib
import math
import os
import random
import subprocess
import sys
import time

import z3

from .. import common

_REPO_PKG = os.path.join(common.REPO, "blackbird_python", "blackbird") + os.sep
_GENERATED = ("blackbirdParser.py", "blackbirdLexer.py", "blackbirdListener.py")


def lex(lang, text):
    """real lexer -> [(TOKENNAME, text)]"""
    return [(lang.tok_names[t], x) for (t, x) in lang.real_tokens(text)]


@contextlib.contextmanager
def coverage(sink):
    """records qualified names of /repo functions executed inside the block (sys.monitoring)"""
    mon = getattr(sys, "monitoring", None)
    if mon is None:
        yield
        return
    tool = 3
    seen = set()
    try:
        mon.use_tool_id(tool, "bbverif")
    except ValueError:
        yield
        return

    def on_start(code, offset):
        fn = code.co_filename
        if fn.startswith(_REPO_PKG) and not fn.endswith(_GENERATED):
            seen.add("%s:%s" % (os.path.basename(fn), code.co_qualname))
        return mon.DISABLE

    mon.register_callback(tool, mon.events.PY_START, on_start)
    mon.set_events(tool, mon.events.PY_START)
    try:
        yield
    finally:
        mon.set_events(tool, 0)
        mon.register_callback(tool, mon.events.PY_START, None)
        mon.free_tool_id(tool)
        mon.restart_events()
        for s in sorted(seen):
            if s not in sink:
                sink.append(s)


def finite(x):
    if isinstance(x, complex):
        return math.isfinite(x.real) and math.isfinite(x.imag)
    try:
        return math.isfinite(x)
    except (TypeError, OverflowError):
        return True


def close(a, b, rel=1e-12):
    """numeric agreement within the property's tolerance; two integers agree only if they are equal"""
    import numpy as _np
    if isinstance(a, (int, _np.integer)) and isinstance(b, (int, _np.integer)):
        return int(a) == int(b)
    try:
        a = complex(a)
        b = complex(b)
    except (TypeError, ValueError):
        return a == b
    if not (finite(a) and finite(b)):
        return False
    scale = max(abs(a), abs(b))
    return abs(a - b) <= rel * scale + 1e-300


def shuffle(items, seed):
    random.Random(seed).shuffle(items)


def find_replayable(E, path, cond, lv, concrete_fn, tries=8, nice=64, hints=()):
    """models of path.pc & cond, turned into concrete values and replayed through concrete_fn.
    hints: extra constraints tried first (they only steer which model is picked for the replay, e.g. towards values whose
    CPython set order differs from the sorted order); the verdict never depends on them.
    returns ('unsat'|'unknown'|'unconfirmed', None) or ('sat', cex dict)"""
    block = []
    first = True
    plans = [list(h) if isinstance(h, (list, tuple)) else [h] for h in hints] + [None] * tries
    for attempt, hint in enumerate(plans):
        bounds = [v <= nice for (_, _, v) in lv.vars] if attempt < len(plans) - tries // 2 else []
        if not bounds and not hint:
            # steering only: an integer beyond 2**53 is taken odd (no double represents it), so that a conversion the model
            # left open (terms.to_f64) shows in the concrete replay
            bounds = [z3.Or(v <= 2 ** 53, z3.And(v % 2 == 1, v < 2 ** 62)) for (_, k, v) in lv.vars if k == "int"]
        extra = block + bounds + (hint or [])
        r, mdl = E.query(path, cond, extra=extra)
        if r == "unsat" and (bounds or hint):
            if hint is not None:
                continue
            r, mdl = E.query(path, cond, extra=block)
        if r == "unsat":
            return ("unsat", None) if first else ("unconfirmed", None)
        if r != "sat":
            if hint is not None:
                continue
            return ("unknown", None) if first else ("unconfirmed", None)
        first = False
        vals = lv.model_values(mdl)
        res = concrete_fn(vals)
        if isinstance(res, dict):
            return "sat", res
        if not lv.vars:
            return "unconfirmed", None
        block.append(z3.Or([v != mdl.eval(v, model_completion=True) for (_, _, v) in lv.vars]))
    if first:
        r, _ = E.query(path, cond)
        return ("unsat", None) if r == "unsat" else (("unknown", None) if r != "sat" else ("unconfirmed", None))
    return "unconfirmed", None


def _chunk_worker(arg):
    fn, chunk = arg
    out = []
    for item in chunk:
        t0 = time.time()
        try:
            r = fn(item)
        except BaseException as e:  # noqa: harness bug inside a worker (incl. a stray Abort) -> inconclusive, never a pass or a hang
            import traceback
            r = {"spec": item, "result": "inconclusive", "why": "harness exception: %r\n%s" % (e, traceback.format_exc()[-1500:]),
                 "paths": 0, "stats": None, "funcs": []}
        r["dt"] = time.time() - t0
        out.append(r)
    return out


def run_parallel(fn, jobs, nchunks=None):
    n = common.NCPU
    if not jobs:
        return []
    per = max(1, min(25, len(jobs) // (n * 4) or 1))
    chunks = [(fn, jobs[i:i + per]) for i in range(0, len(jobs), per)]
    res = common.pmap(_chunk_worker, chunks)
    return [r for c in res for r in c]


def confirm_replay(path, seeds=(None, 1, 2, 3, 4, 5, 6, 7, 8, 9, 10, 11, 12, 13, 14, 15, 16)):
    """run a replay script in a pristine interpreter; True if it reproduces (exit code 1).  A violation that depends on
    the iteration order of a hash-randomised set may need a particular PYTHONHASHSEED: further seeds are tried."""
    outp = ""
    for sd in seeds:
        env = dict(os.environ, PYTHONDONTWRITEBYTECODE="1")
        if sd is not None:
            env["PYTHONHASHSEED"] = str(sd)
        try:
            p = subprocess.run([common.PY, "-W", "ignore", path], capture_output=True, text=True, timeout=300, env=env)
        except subprocess.TimeoutExpired:
            return False, "timeout"
        outp = (p.stdout + p.stderr)[-2000:]
        if p.returncode == 1:
            if sd is not None:
                with open(path, "a") as fh:
                    fh.write("\n# reproduces with PYTHONHASHSEED=%d\n" % sd)
            return True, outp
        if p.returncode != 0:
            return False, outp
    return False, outp


MAX_REPORTED = 6


def collect(rep, results, key_fn, replay_fn, sample_fn=None, what_fn=None):
    """merge worker results into the report; violations pass the replay gate (pristine subprocess) first"""
    seen_keys = set()
    for r in results:
        rep.evaluations += 1
        rep.distinct.add(repr(r.get("spec")) + repr(r.get("spaced", "")))
        if r.get("stats"):
            rep.merge_stats(r["stats"])
            rep.states += r["stats"].get("paths", 0)
            rep.transitions += r["stats"].get("branches", 0)
        for f in r.get("funcs", []):
            rep.functions.add(f)
        rep.extra["paths"] = rep.extra.get("paths", 0) + r.get("paths", 0)
        rep.extra["reachability_witnesses"] = rep.extra.get("reachability_witnesses", 0) + r.get("reach", 0)
        for u in r.get("unconfirmed", []):
            rep.unconfirmed.append(u)
        rep.validated += r.get("validated", 0)
        name = r.get("name") or (r.get("text") or repr(r.get("spec")))[-160:]
        if r["result"] == "holds":
            rep.obligation(name, "holds", paths=r.get("paths"))
            if sample_fn:
                rep.sample(sample_fn(r))
        elif r["result"] == "inconclusive":
            rep.obligation(name, "inconclusive", why=r.get("why"))
        elif r["result"] == "skipped":
            rep.extra["skipped_outside_domain"] = rep.extra.get("skipped_outside_domain", 0) + 1
            rep.distinct.discard(repr(r.get("spec")) + repr(r.get("spaced", "")))
        else:
            key = key_fn(r)
            what = what_fn(r) if what_fn else "%s\n%s\nobserved: %s\nexpected: %s" % (
                r["cex"]["what"], r["cex"].get("text", ""), r["cex"].get("observed"), r["cex"].get("expected"))
            rep.obligation(name, "violated", what=r["cex"]["what"])
            if key in seen_keys:
                continue
            seen_keys.add(key)
            if len(rep.violations) >= MAX_REPORTED and not any(common._match(f, key, what) for f in rep.known):
                rep.extra["further_candidate_violations_not_replayed"] = rep.extra.get("further_candidate_violations_not_replayed", 0) + 1
                continue
            known = any(common._match(f, key, what) for f in rep.known)
            src = replay_fn(r)
            if known:
                rep.violation(key, what)
                continue
            tmpdir = os.path.join(common.REPLAYS, rep.pid)
            os.makedirs(tmpdir, exist_ok=True)
            nm = "v%03d" % len(rep.violations)
            pth = os.path.join(tmpdir, nm + ".py")
            with open(pth, "w") as fh:
                fh.write(src)
            ok, outp = confirm_replay(pth)
            rep.validated += 1
            if not ok:
                os.unlink(pth)
                rep.unconfirmed.append({"key": key, "what": what, "replay_output": outp[-400:]})
                continue
            rep.violation(key, what, src, nm)


def shape_key(spec):
    """compact stable rendering of a skeleton spec (used in finding keys)"""
    def it(x):
        if isinstance(x, (tuple, list)):
            return "".join(it(y) for y in x if y is not None)
        return str(x)
    return it(spec)


def validate_native(E, paths, lv, conc, out, nmax=2, big=False):
    """encoder validation (DESIGN 2.4): a model of up to nmax explored paths is instantiated to concrete literals and the
    *native* real code (no proxies) is compared with the concrete reference.  The symbolic run said 'holds' for all values,
    so a native mismatch means the proxies/stubs mis-model the real code on that path: it is reported (it is a real
    reproduction), and counted, never ignored."""
    done = 0
    for pth in paths:
        if done >= nmax:
            break
        if pth.kind == "abort":
            continue
        r, mdl = E.query(pth, z3.BoolVal(True), extra=[v <= 40 for (_, _, v) in lv.vars])
        if r != "sat":
            r, mdl = E.query(pth, z3.BoolVal(True))
        if r != "sat":
            continue
        vals = lv.model_values(mdl)
        res = conc(vals)
        done += 1
        if not isinstance(res, dict) and done == 1 and len(lv.vars) > 1:
            # a second, degenerate valuation: as many same-kind values as possible coincide (collisions between equal
            # values - caches keyed by value, de-duplication - are invisible to distinct symbolic terms)
            by_kind = {}
            for (_, k, v) in lv.vars:
                by_kind.setdefault(k, []).append(v)
            eqs = [a == b for vs in by_kind.values() for a, b in zip(vs, vs[1:])]
            keep = []
            for e_ in eqs:
                r2, _ = E.query(pth, z3.BoolVal(True), extra=keep + [e_])
                if r2 == "sat":
                    keep.append(e_)
            if keep:
                r2, mdl2 = E.query(pth, z3.BoolVal(True), extra=keep)
                if r2 == "sat":
                    res = conc(lv.model_values(mdl2))
                    done += 1
        if not isinstance(res, dict) and done <= 2 and big:
            # a third valuation: as many integer leaves as the path allows are odd numbers beyond 2**53 (no double holds them;
            # arithmetic is over the reals in the symbolic run, so a needless trip through a double is invisible there)
            keep = []
            for (_, k, v) in lv.vars:
                if k != "int":
                    continue
                c_ = z3.And(v > 2 ** 53, v < 2 ** 53 + 1000, v % 2 == 1)
                r2, _ = E.query(pth, z3.BoolVal(True), extra=keep + [c_])
                if r2 == "sat":
                    keep.append(c_)
            if keep:
                r2, mdl2 = E.query(pth, z3.BoolVal(True), extra=keep + [v <= 40 for (_, k, v) in lv.vars if k != "int"])
                if r2 != "sat":
                    r2, mdl2 = E.query(pth, z3.BoolVal(True), extra=keep)
                if r2 == "sat":
                    res = conc(lv.model_values(mdl2))
                    done += 1
        if isinstance(res, dict):
            res["what"] = "native run differs from the reference although the symbolic run found no difference (encoder gap): " + str(res.get("what"))
            out["result"] = "violation"
            out["cex"] = res
            break
    if out.get("result") != "violation":
        # paths on which the symbolic run gave up (a library call the proxies cannot follow): the values that lead there are
        # exactly the ones no solver verdict covers, so one native run per such path (up to nmax) inside its path condition
        na = 0
        for pth in paths:
            if pth.kind != "abort" or na >= max(1, nmax):
                continue
            r, mdl = E.query(pth, z3.BoolVal(True), extra=[z3.And(v >= 1, v <= 40) for (_, _, v) in lv.vars])
            if r != "sat":
                r, mdl = E.query(pth, z3.BoolVal(True))
            if r != "sat":
                continue
            na += 1
            try:
                res = conc(lv.model_values(mdl))
            except Exception:  # noqa
                continue
            done += 1
            if isinstance(res, dict):
                res["what"] = "native run differs from the reference on values for which the symbolic run gave up (%s): %s" % (str(pth.value)[:80], res.get("what"))
                out["result"] = "violation"
                out["cex"] = res
                break
    if done == 0 and out.get("result") != "violation":
        # no explored path gave a model (every path aborted, or the solver gave up): one native run on ordinary values, so that a
        # skeleton is never left without any comparison of the real code with the reference
        vals = [(0.5 + 0.75 * (i % 5) if k == "float" else 2 + (3 * i % 7)) for i, (_, k, _) in enumerate(lv.vars)]
        try:
            res = conc(vals)
        except Exception:  # noqa
            res = None
        done += 1
        if isinstance(res, dict):
            res["what"] = "native run on ordinary values differs from the reference (the symbolic run reached no verdict): " + str(res.get("what"))
            out["result"] = "violation"
            out["cex"] = res
    out["validated"] = out.get("validated", 0) + done
