"""C17 - template matching inverts instantiation, independent of commuting order (reduced claim, real-number model).

For templates with affine single-parameter positional arguments, P = T(**v) is computed by the real code on symbolic
parameter values; for EVERY reordering P' of P that preserves the order on each mode, the real match_template(T, P')
runs on the proxies (the program's arguments enter SymPy as stand-in symbols, `float` in utils maps the solved
expression back to a z3 term).  Asserted on every path: no TemplateError, result[p] == v[p] for all values (z3).
Structural edits (gate, mode list, swapped same-mode operations, version, target) must raise TemplateError: these are
concrete-structure runs and reported as such.
NOT covered, by construction: the one way this property can fail on floats - the exact `!=` between a directly read
value and a value recovered through solve() - is invisible when floats are reals.
"""
import itertools
import sys

import z3

from .. import common
from ..pysym import engine, proxies as P, stubs, terms as T
from . import _script, _util as U

PID = "C17"
MOD = "bbverif.checks.c17"

TEMPLATES = {
    "doc_example": ["Dgate(-{r}, 0.45) | 1", "Vac | 2", "Sgate({r}, 2*{phi}-1) | 0"],
    "chain": ["Dgate({a}) | 0", "Sgate({b}, {a}) | 0", "BSgate(0.5*{b}+0.25, {c}) | [0, 1]", "Rgate(4*{c}) | 1"],
    "repeated_disjoint": ["Rgate({t}) | 0", "Rgate(2*{t}) | 1", "Rgate({t}/4+1) | 2", "Vac | 3"],
    "const_mix": ["Dgate(0.5, {x}) | 0", "Dgate({x}, 0.5) | 1", "Xgate(1.5) | 0"],
    "four_commuting": ["Ag({a}) | 0", "Bg(2*{b}-3) | 1", "Cg(-{c}) | 2", "Dg({a}*0.5, {b}) | 3"],
    "negative_affine": ["Dgate(-2*{r}+3, {s}) | 0", "Sgate(-{s}-1) | 1", "Zgate({r}) | 0"],
    "two_mode_bridge": ["Sgate({a}) | 0", "Sgate({b}) | 2", "BSgate({a}, {b}) | [0, 2]", "Rgate(8*{a}) | 1", "MeasureX | 1"],
    "single": ["Dgate({p}) | 0"],
    "with_target": ["Dgate({a}, 1.25) | 0", "Sgate(3*{a}) | 1"],
    "same_gate_many_modes": ["Rgate({a}) | 0", "Rgate({b}) | 1", "Rgate({c}) | 2", "Rgate(2*{a}+{b}*0+1) | 3"] if False else ["Rgate({a}) | 0", "Rgate({b}) | 1", "Rgate({c}) | 2", "Rgate(2*{a}+1) | 3"],
    "two_mode_chain": ["BSgate({t}, 0.5) | [0, 1]", "BSgate(0.25, {u}) | [1, 2]", "BSgate({t}/2, {u}*4) | [2, 3]", "Rgate(-{u}+1) | 0"],
    "kwargs_present": ["Dgate({a}, 0.5) | 0", "MeasureHomodyne(phi=0.25) | 0", "Sgate(8*{a}-2) | 1"],
    "five_ops": ["Ag({a}) | 0", "Bg({b}) | 1", "Cg({a}+0.5, {b}-0.5) | [0, 1]", "Dg(4*{b}) | 2", "Eg(-{a}/8) | [2, 0]"],
    "scale_only": ["Dgate(2*{a}, 0.5) | 0", "Sgate(-{b}/4) | 1", "Rgate(3*{a}, {b}) | 2", "Zgate({a}*0.125) | 3"],
    # parameter names that SymPy-based code likes to use for its own placeholders (`x`, `y`, `z`)
    "sympy_like_names": ["Dgate(2*{y}-1) | 0", "Sgate(-{y}, {x}) | 1", "Rgate({x}+1.5, {z}) | 2", "Zgate(4*{z}) | 0"],
    "offset_only_and_scale_only": ["Dgate({p}+1.5) | 0", "Dgate(4*{q}) | 1", "Dgate({p}-0.25, {q}/2) | 2"],
}
# templates whose arguments have no additive constant: a parameter value of any magnitude is recovered without cancellation
# (with an offset, `2*r+1` at r = 1e-7 loses nine digits in the program itself: such values are not 'generic')
NO_OFFSET = ["const_mix", "two_mode_bridge", "single", "with_target", "scale_only"]
HEADERS = {"with_target": "name t\nversion 1.0\ntarget X8 (shots=10)\n\n"}


def text_of(name):
    return HEADERS.get(name, "name t\nversion 1.0\n\n") + "\n".join(TEMPLATES[name]) + "\n"


def orders(ops):
    """all permutations of range(n) that keep the relative order of operations sharing a mode"""
    n = len(ops)
    modes = [set(o["modes"]) for o in ops]
    res = []
    for perm in itertools.permutations(range(n)):
        pos = {v: k for k, v in enumerate(perm)}
        ok = all(pos[i] < pos[j] for i in range(n) for j in range(i + 1, n) if modes[i] & modes[j])
        if ok:
            res.append(perm)
    return res


def run_spec(name):
    _script.winit()
    import blackbird
    from blackbird.utils import match_template, TemplateError
    out = {"spec": name, "result": "holds", "paths": 0, "stats": None, "why": None, "cex": None, "funcs": [], "reach": 0, "text": text_of(name)}
    import blackbird.auxiliary as aux
    aux._VAR.clear()
    aux._PARAMS.clear()
    Tm = blackbird.loads(text_of(name))
    names = sorted(Tm.parameters)
    zv = {n: z3.Real("v_" + n) for n in names}
    perms = orders(Tm.operations)
    out["permutations"] = len(perms)
    P.STANDINS["on"] = True
    stats = {"sat": 0, "unsat": 0, "unknown": 0, "solver_s": 0.0, "paths": 0, "branches": 0}
    try:
        # every order-preserving permutation; the first one also as a program assembled by hand from the same operations
        for perm in [perms[0]] + list(perms):
            hand = perm is perms[0] and not out.get("_hand_done")
            out["_hand_done"] = True
            E = engine.Engine(max_paths=600)
            E.base = []

            def run():
                P.STANDINS["map"].clear()
                inst = Tm(**{n: P.SNum(T.V("float", zv[n]), float) for n in names})
                inst._operations = [inst._operations[i] for i in perm]
                if hand:
                    inst = _by_hand(inst)
                return match_template(Tm, inst)

            with U.coverage(out["funcs"]):
                try:
                    paths = E.explore(run)
                except engine.PathLimit as e:
                    out.update(result="inconclusive", why=str(e))
                    return out
            out["paths"] += len(paths)
            for k in stats:
                stats[k] += E.stats.get(k, 0)
            for pth in paths:
                if pth.kind == "abort":
                    out.update(result="inconclusive", why="abort: %s" % pth.value)
                    continue
                out["reach"] += 1
                cands = []
                if pth.kind == "exc":
                    cands.append(("match_template raises %s: %s" % (type(pth.value).__name__, str(pth.value)[:120]), z3.BoolVal(True)))
                else:
                    res = pth.value
                    if set(res) != set(names):
                        cands.append(("matched parameters %r, template has %r" % (sorted(res), names), z3.BoolVal(True)))
                    else:
                        for n in names:
                            try:
                                ne = z3.simplify(z3.Not(T.eq(P.as_v(res[n]), T.V("float", zv[n]))))
                            except TypeError:
                                cands.append(("parameter %s matched to a non-number %r" % (n, type(res[n]).__name__), z3.BoolVal(True)))
                                continue
                            if not z3.is_false(ne):
                                cands.append(("parameter %s does not get back the value it was instantiated with" % n, ne))
                for desc, cond in cands:
                    r, mdl = E.query(pth, cond)
                    if r == "unsat":
                        continue
                    if r != "sat":
                        out.update(result="inconclusive", why="solver %s" % r)
                        continue
                    vals = [T._ratf(mdl.eval(zv[n], model_completion=True)) for n in names]
                    rr = concrete_check(name, list(perm) + (["hand"] if hand else []), vals)
                    if isinstance(rr, dict):
                        rr["symbolic_what"] = desc
                        out.update(result="violation", cex=rr, stats=stats)
                        return out
                    # try a few generic values as well (the model may be degenerate)
                    for alt in ([0.3 + 0.7 * k for k in range(len(names))], [-1.25 + 0.5 * k for k in range(len(names))]):
                        rr = concrete_check(name, list(perm) + (["hand"] if hand else []), alt)
                        if isinstance(rr, dict):
                            rr["symbolic_what"] = desc
                            out.update(result="violation", cex=rr, stats=stats)
                            return out
                    out.setdefault("unconfirmed", []).append({"what": desc, "text": out["text"], "order": list(perm)})
        # the same program object matched, given other argument values in place, and matched again: the second answer
        # must be the second values (a remembered graph / result of the first call must not leak)
        zw = {n: z3.Real("w_" + n) for n in names}
        E = engine.Engine(max_paths=600)
        E.base = []

        def run2():
            P.STANDINS["map"].clear()
            inst = Tm(**{n: P.SNum(T.V("float", zv[n]), float) for n in names})
            match_template(Tm, inst)
            other = Tm(**{n: P.SNum(T.V("float", zw[n]), float) for n in names})
            _take_arguments(inst, other)
            return match_template(Tm, inst)

        with U.coverage(out["funcs"]):
            try:
                paths = E.explore(run2)
            except engine.PathLimit as e:
                out.update(result="inconclusive", why=str(e))
                return out
        out["paths"] += len(paths)
        for k in stats:
            stats[k] += E.stats.get(k, 0)
        for pth in paths:
            if pth.kind == "abort":
                out.update(result="inconclusive", why="abort (rematch): %s" % pth.value)
                continue
            out["reach"] += 1
            cands = []
            if pth.kind == "exc":
                cands.append(("second match_template on the same object raises %s: %s" % (type(pth.value).__name__, str(pth.value)[:120]), z3.BoolVal(True)))
            elif set(pth.value) != set(names):
                cands.append(("second match: parameters %r, template has %r" % (sorted(pth.value), names), z3.BoolVal(True)))
            else:
                for n in names:
                    try:
                        ne = z3.simplify(z3.Not(T.eq(P.as_v(pth.value[n]), T.V("float", zw[n]))))
                    except TypeError:
                        cands.append(("second match: parameter %s matched to a non-number" % n, z3.BoolVal(True)))
                        continue
                    if not z3.is_false(ne):
                        cands.append(("second match on the same object: parameter %s is not the value the program now holds" % n, ne))
            for desc, cond in cands:
                r, mdl = E.query(pth, cond)
                if r == "unsat":
                    continue
                if r != "sat":
                    out.update(result="inconclusive", why="solver %s" % r)
                    continue
                va = [T._ratf(mdl.eval(zv[n], model_completion=True)) for n in names]
                vb = [T._ratf(mdl.eval(zw[n], model_completion=True)) for n in names]
                for a, b in ((va, vb), ([0.3 + 0.7 * k for k in range(len(names))], [-1.25 + 0.5 * k for k in range(len(names))])):
                    rr = rematch_check(name, a, b)
                    if isinstance(rr, dict):
                        rr["symbolic_what"] = desc
                        out.update(result="violation", cex=rr, stats=stats)
                        return out
                out.setdefault("unconfirmed", []).append({"what": desc, "text": out["text"]})
    finally:
        P.STANDINS["on"] = False
        P.STANDINS["map"].clear()
    out["stats"] = stats
    # encoder validation + structural edits, natively
    v = [0.3 + 0.7 * k for k in range(len(names))]
    out.pop("_hand_done", None)
    for perm in [list(perms[0]) + ["hand"]] + [list(q) for q in perms[:6]]:
        rr = concrete_check(name, list(perm), v)
        out["validated"] = out.get("validated", 0) + 1
        if isinstance(rr, dict):
            rr["symbolic_what"] = "native run fails although the symbolic run holds (encoder gap)"
            out.update(result="violation", cex=rr)
            return out
    # ordinary decimal values (floats are reals in the symbolic run: a recovered value and a directly read value of the same
    # parameter differ by rounding in the real code)
    import random
    rnd = random.Random(len(name) * 7919 + common.seed())
    for _ in range(12 if common.tier() == "quick" else 80):
        vals = [round(rnd.uniform(-3, 3), rnd.choice((1, 2, 3, 6))) or 0.5 for _ in names]
        rr = concrete_check(name, list(perms[rnd.randrange(len(perms))]), vals)
        out["validated"] = out.get("validated", 0) + 1
        if isinstance(rr, dict):
            rr["symbolic_what"] = "native run on ordinary decimal parameter values: " + rr["what"]
            out.update(result="violation", cex=rr)
            return out
    # the parameter values handed over as NumPy scalars (the instance keeps their types)
    import numpy as _np
    for conv in (_np.float32, _np.int64, _np.float64, int):
        vals = [conv(2 + k) if conv in (_np.int64, int) else conv(0.5 + 0.25 * k) for k in range(len(names))]
        rr = concrete_check(name, list(perms[0]), vals)
        out["validated"] = out.get("validated", 0) + 1
        if isinstance(rr, dict):
            rr["symbolic_what"] = "parameter values passed as %s: %s" % (conv.__name__, rr["what"])
            rr["values"] = [rr["values"][0], [float(x) for x in vals], conv.__name__]
            out.update(result="violation", cex=rr)
            return out
    if name in NO_OFFSET:
        for vals in ([3.3e-13 * (k + 1) for k in range(len(names))], [-7.25e-15 * (k + 2) for k in range(len(names))], [1.5e17 * (k + 1) for k in range(len(names))],
                     [(1e-7 if k % 2 else 2.5e9) * (k + 1) for k in range(len(names))]):
            rr = concrete_check(name, list(perms[0]), vals)
            out["validated"] = out.get("validated", 0) + 1
            if isinstance(rr, dict):
                rr["symbolic_what"] = "native run on very small / very large parameter values: " + rr["what"]
                out.update(result="violation", cex=rr)
                return out
    rr = rematch_check(name, v, [-1.25 + 0.5 * k for k in range(len(names))])
    out["validated"] = out.get("validated", 0) + 1
    if isinstance(rr, dict):
        rr["symbolic_what"] = rr["what"]
        out.update(result="violation", cex=rr)
        return out
    for mode in ("fresh", "matched_copy", "matched_inplace"):
        rr = structural_edits(name, v, mode)
        out["validated"] = out.get("validated", 0) + rr[0]
        if rr[1]:
            out.update(result="violation", cex=rr[1])
            return out
    return out


def _take_arguments(inst, other):
    """give `inst` the argument values of `other` (same template) in place"""
    for o, o2 in zip(inst._operations, other._operations):
        for k in ("args", "kwargs"):
            if k in o2:
                o[k] = o2[k]


def rematch_check(name, vals, vals2):
    """match, change the argument values of the same object in place, match again (also a deep copy made after the first match)"""
    from blackbird.utils import match_template
    import copy
    Tm = _load(name)
    names = sorted(Tm.parameters)
    v, v2 = dict(zip(names, vals)), dict(zip(names, vals2))
    base = {"text": text_of(name), "values": ["rematch", [vals, vals2]]}
    inst = Tm(**v)
    try:
        match_template(Tm, inst)
        cp = copy.deepcopy(inst)
        for obj, what in ((inst, "the same program object"), (cp, "a deep copy made after the first match")):
            _take_arguments(obj, Tm(**v2))
            res = match_template(Tm, obj)
            bad = [n for n in names if n not in res or not U.close(res[n], v2[n], rel=1e-9)]
            if bad:
                return dict(base, what="match_template on %s after its arguments were changed returns stale values" % what,
                            observed=repr({n: res.get(n) for n in bad}), expected=repr({n: v2[n] for n in bad}))
    except Exception as e:  # noqa
        return dict(base, what="match / change arguments / match again raises %s" % type(e).__name__, observed="%s: %s" % (type(e).__name__, str(e)[:160]), expected="the new values")
    return None


def _load(name):
    import blackbird
    import blackbird.auxiliary as aux
    aux._VAR.clear()
    aux._PARAMS.clear()
    return blackbird.loads(text_of(name))


def _by_hand(inst):
    """the same program assembled through the API: a new object given the name, version, target and operations"""
    from blackbird import BlackbirdProgram
    h = BlackbirdProgram(name=inst.name, version=inst.version)
    h._target = {"name": inst.target["name"], "options": dict(inst.target["options"])}
    h._type = {"name": inst.programtype["name"], "options": dict(inst.programtype["options"])}
    h._operations = list(inst._operations)
    return h


def concrete_check(name, perm, vals):
    from blackbird.utils import match_template, TemplateError
    Tm = _load(name)
    names = sorted(Tm.parameters)
    v = dict(zip(names, vals))
    inst = Tm(**v)
    hand = "hand" in perm
    perm = [i for i in perm if i != "hand"]
    inst._operations = [inst._operations[i] for i in perm]
    if hand:
        inst = _by_hand(inst)
    base = {"text": text_of(name), "values": [list(perm) + (["hand"] if hand else []), vals]}
    try:
        res = match_template(Tm, inst)
    except Exception as e:  # noqa
        # the float side (inconsistent values after solve) is outside the real-number claim; it is reported only if values are exactly representable
        return dict(base, what="match_template raises %s for an instantiation of its own template" % type(e).__name__,
                    observed="%s: %s (operations reordered as %r, values %r)" % (type(e).__name__, str(e)[:160], perm, v), expected="the parameter values")
    bad = [n for n in names if n not in res or not U.close(res[n], v[n], rel=1e-9)]
    if bad:
        return dict(base, what="matched values differ from the instantiation values", observed="%r (order %r)" % ({n: res.get(n) for n in bad}, perm), expected=repr({n: v[n] for n in bad}))
    return None


def structural_edits(name, vals, mode="fresh"):
    """single structural edits of an instance must be rejected with TemplateError (concrete-structure runs).
    mode 'fresh': the edited copy was never matched; 'matched_copy': the instance is matched first and the copies are
    taken afterwards; 'matched_inplace': additionally each edited copy is itself matched before the edit is applied"""
    from blackbird.utils import match_template, TemplateError
    import copy
    Tm = _load(name)
    names = sorted(Tm.parameters)
    v = dict(zip(names, vals))
    n = 0
    edits = []
    inst = Tm(**v)
    if mode != "fresh":
        match_template(Tm, inst)

    _cp = copy

    class _Copy:
        @staticmethod
        def deepcopy(x):
            c = _cp.deepcopy(x)
            if mode == "matched_inplace":
                match_template(Tm, c)
            return c

    copy = _Copy
    nops = len(inst._operations)
    for i in range(nops):
        e = copy.deepcopy(inst)
        e._operations[i]["op"] = e._operations[i]["op"] + "X"
        edits.append(("gate name of operation %d changed" % i, e))
        e = copy.deepcopy(inst)
        e._operations[i]["modes"] = [m + 7 for m in e._operations[i]["modes"]]
        edits.append(("mode list of operation %d changed" % i, e))
        if len(inst._operations[i]["modes"]) > 1:
            e = copy.deepcopy(inst)
            e._operations[i]["modes"] = list(reversed(e._operations[i]["modes"]))
            edits.append(("mode order of operation %d reversed" % i, e))
    for i in range(nops):
        for j in range(i + 1, nops):
            a, b = inst._operations[i], inst._operations[j]
            if set(a["modes"]) & set(b["modes"]) and (a["op"], a["modes"]) != (b["op"], b["modes"]):
                e = copy.deepcopy(inst)
                e._operations[i], e._operations[j] = e._operations[j], e._operations[i]
                # only a swap of two operations that is not order-preserving w.r.t. all ops in between
                between = inst._operations[i + 1:j]
                if all(not (set(x["modes"]) & set(a["modes"])) and not (set(x["modes"]) & set(b["modes"])) for x in between):
                    edits.append(("same-mode operations %d and %d swapped" % (i, j), e))
    e = copy.deepcopy(inst)
    e._version = "9.9"
    edits.append(("version changed", e))
    # (a version is a piece of text: other spellings of the same number are other versions)
    for tag, ver in (("a trailing zero", str(inst._version) + "0"), ("a leading zero", "0" + str(inst._version)), ("exponent form", str(inst._version) + "e0")):
        e = copy.deepcopy(inst)
        e._version = ver
        edits.append(("version changed by %s" % tag, e))
    e = copy.deepcopy(inst)
    e._target["name"] = "other_device"
    edits.append(("target changed", e))
    e = copy.deepcopy(inst)
    e._operations.append({"op": "Extra", "modes": [0]})
    edits.append(("operation appended", e))
    e = copy.deepcopy(inst)
    e._operations.pop()
    edits.append(("last operation removed", e))
    for what, prog in edits:
        n += 1
        try:
            res = match_template(Tm, prog)
        except TemplateError:
            continue
        except Exception as ex:  # noqa
            return n, {"text": text_of(name), "values": [what + "|" + mode, vals], "symbolic_what": what, "what": "structural edit (%s, %s) raises %s instead of TemplateError" % (what, mode, type(ex).__name__),
                       "observed": "%s: %s" % (type(ex).__name__, str(ex)[:160]), "expected": "TemplateError"}
        return n, {"text": text_of(name), "values": [what + "|" + mode, vals], "symbolic_what": what, "what": "structural edit (%s, %s) is accepted" % (what, mode), "observed": repr(res), "expected": "TemplateError"}
    return n, None


REPLAY = '''#!/usr/bin/env python
# C17 replay: instantiate the template with concrete values, reorder as given, call the real match_template;
# or re-run the structural edits.
import sys; sys.path.insert(0, %(root)r)
from bbverif.checks import c17
vals = %(vals)r
a, b = vals[0], vals[1]
if len(vals) > 2:
    import numpy
    conv = {"float32": numpy.float32, "int64": numpy.int64, "float64": numpy.float64, "int": int}[vals[2]]
    b = [conv(x) for x in b]
if a == "rematch":
    r = c17.rematch_check(%(name)r, b[0], b[1])
elif isinstance(a, str):
    n, r = c17.structural_edits(%(name)r, b, a.split("|")[1] if "|" in a else "fresh")
else:
    r = c17.concrete_check(%(name)r, a, b)
if not r:
    print("as demanded"); sys.exit(0)
print(r["text"]); print("what    :", r["what"]); print("observed:", r["observed"]); print("expected:", r["expected"]); sys.exit(1)
'''


def main():
    t = common.tier()
    rep = common.Report(PID, "model_checking")
    rep.rule = ("one case = one template; for every order-preserving permutation of its instance the real match_template runs on symbolic parameter values; "
                "structural edits are concrete runs")
    rep.bounds = {"templates": len(TEMPLATES), "operations": "<=5", "permutations per template": "all order-preserving ones (<= 24)", "coefficients": "concrete, non-zero",
                  "histories": "match / change the arguments of the same object (symbolic second values) / match again; structural edits on fresh copies, on copies taken after a match, on matched copies",
                  "API route": "the instance also as a new program object assembled by hand from the same operations"}
    rep.assumptions = [
        "real-number model: floats are reals, so an inconsistency between a directly read value and a value recovered through solve() is invisible to the solver; "
        "native runs on ordinary decimal values (every template) and on very small / very large values (templates without additive constants) cover the float side",
        "parameter values for which an additive constant dominates the parameter term by many orders of magnitude (2*r+1 at r = 3e-13) are not 'generic': the program itself has lost the digits",
        "SymPy boundary: program arguments enter SymPy as stand-in symbols (proxies' reflected operators); utils.float maps solved expressions back to z3 terms",
        "networkx DiGraphMatcher and sympy.solve are trusted",
        "structural-edit rejection is checked on concrete instances (no solver)",
    ]
    results = U.run_parallel(run_spec, list(TEMPLATES))
    U.collect(rep, results, key_fn=lambda r: r["spec"] + ": " + _script.default_key(r),
              replay_fn=lambda r: REPLAY % {"root": common.ROOT, "name": r["spec"], "vals": r["cex"]["values"]},
              sample_fn=lambda r: {"template": r["text"], "permutations": r.get("permutations"), "paths": r["paths"]})
    rep.extra["permutations_total"] = sum(r.get("permutations", 0) for r in results)
    return rep.finish()


if __name__ == "__main__":
    sys.exit(main())
