"""Comparison of what the real code produced (values possibly proxies) with the reference
program (values z3 terms or python numbers).  Produces a list of (description, condition):
condition is a z3 Bool (symbolic: 'the two differ') or python True (definite mismatch)."""
import numpy as np
import sympy
import z3

from ..pysym import terms as T, proxies as P
from ..ref import interp as RI, expr as RX
from . import _util as U


class Cmp:
    def __init__(self, symbolic, symfactory=None, strict_kinds=True):
        self.symbolic = symbolic
        self.sf = symfactory
        self.out = []
        self.strict = strict_kinds

    def miss(self, where, what, cond=True):
        self.out.append(("%s: %s" % (where, what), cond))

    # ---- numbers
    def number(self, iv, rv, where):
        if isinstance(iv, (str, list, dict, sympy.Basic)) or iv is None or type(iv) is bool and not isinstance(rv, bool):
            return self.miss(where, "expected a number, got %s" % type(iv).__name__)
        if isinstance(iv, np.ndarray):
            return self.miss(where, "expected a scalar number, got an array")
        try:
            ikind = "int" if P.KIND_OF[P.tag_of(iv)] == "bool" else P.KIND_OF[P.tag_of(iv)]
        except KeyError:
            return self.miss(where, "expected a number, got %s" % type(iv).__name__)
        rkind = RX.kind_of(rv)
        if getattr(self, "int_stays_int", False) and not self.symbolic and rkind == "int" and ikind != "int":
            return self.miss(where, "is %s (%s), but integer values in this expression give the integer %r" % (ikind, P.tag_of(iv).__name__, rv))
        if self.strict and ikind != rkind:
            return self.miss(where, "is %s (%s), expected kind %s" % (ikind, P.tag_of(iv).__name__, rkind))
        if self.symbolic:
            ne = z3.Not(T.eq(P.as_v(iv), rv))
            ne = z3.simplify(ne)
            if z3.is_false(ne):
                return
            return self.miss(where, "value differs", ne)
        if P.is_proxy(iv):
            raise AssertionError("proxy in concrete comparison")
        rel = getattr(self, "rel", 1e-12)
        if not U.close(iv, rv, rel=rel):
            # rounding errors of float operations are relative to the operands: tolerate 1e-12 of the largest float intermediate
            try:
                if RX.kind_of(rv) != "int" and abs(complex(iv) - complex(rv)) <= rel * T.PyAlg.fscale:
                    return
            except (TypeError, ValueError):
                pass
            self.miss(where, "value %r, expected %r" % (iv, rv))

    # ---- symbolic expressions (template parameters / measured registers)
    def symexpr(self, iv, rv, where):
        from blackbird.listener import RegRefTransform
        sf = self.sf
        if rv.regs:
            if not isinstance(iv, RegRefTransform):
                return self.miss(where, "expected a register transform over q%s, got %s" % (list(rv.regs), type(iv).__name__))
            if sorted(iv.regrefs) != sorted(rv.regs) or len(set(iv.regrefs)) != len(iv.regrefs):
                return self.miss(where, "transform lists registers %r, expression uses %r" % (iv.regrefs, sorted(rv.regs)))
            if rv.params:
                return   # registers mixed with parameters: outside the described language
            args = [self._symval(sf.reg(n)) for n in iv.regrefs]
            try:
                got = iv.func(*args)
            except Exception as e:  # noqa
                return self.miss(where, "transform function raised %r" % (e,))
            return self.number_loose(got, rv.value, where + " (transform value)")
        if not isinstance(iv, sympy.Expr):
            return self.miss(where, "expected an expression in parameters %r, got %s" % (list(rv.params), _short(iv)))
        names = sorted(str(s) for s in iv.free_symbols)
        if not set(names) <= set(rv.params):
            return self.miss(where, "expression has symbols %r, written parameters %r" % (names, list(rv.params)))
        syms = sorted(iv.free_symbols, key=str)
        try:
            f = sympy.lambdify(syms, iv)
            got = f(*[self._symval(sf.param(str(s))) for s in syms])
        except P.Abort:
            raise
        except Exception as e:  # noqa
            return self.miss(where, "cannot evaluate expression %s: %s" % (_short(iv), type(e).__name__))
        self.number_loose(got, rv.value, where + " (expression value)")

    def _symval(self, v):
        if self.symbolic:
            return P.SNum(v, float)
        return v

    def number_loose(self, iv, rv, where):
        """value equality without kind strictness (symbolic arguments: 'mathematically equal')"""
        if self.symbolic:
            try:
                ne = z3.simplify(z3.Not(T.eq(P.as_v(iv), rv)))
            except TypeError:
                return self.miss(where, "not a number: %s" % _short(iv))
            if not z3.is_false(ne):
                self.miss(where, "value differs", ne)
        else:
            if not U.close(iv, rv, rel=1e-9):
                self.miss(where, "value %r, expected %r" % (iv, rv))

    # ---- any value
    def value(self, iv, rv, where):
        if isinstance(rv, RI.ByName):
            if not (type(iv) is str and iv == rv.name):
                self.miss(where, "expected the array name %r, got %r" % (rv.name, _short(iv)))
            return
        if isinstance(rv, bool):
            if not (type(iv) in (bool, np.bool_) and bool(iv) == rv):
                self.miss(where, "expected %r, got %s" % (rv, _short(iv)))
            return
        if isinstance(rv, str):
            if not (type(iv) in (str, np.str_) and iv == rv):
                self.miss(where, "expected string %r, got %s" % (rv, _short(iv)))
            return
        if isinstance(rv, list):
            if not isinstance(iv, list) or len(iv) != len(rv):
                return self.miss(where, "expected a list of %d values, got %s" % (len(rv), _short(iv)))
            for k, (a, b) in enumerate(zip(iv, rv)):
                self.value(a, b, "%s[%d]" % (where, k))
            return
        if isinstance(rv, RI.Sym):
            return self.symexpr(iv, rv, where)
        if isinstance(rv, RI.RefArray):
            return self.array(iv, rv, where)
        self.number(iv, rv, where)

    def array(self, iv, rv, where):
        if not isinstance(iv, np.ndarray):
            return self.miss(where, "expected an array, got %s" % _short(iv))
        if tuple(iv.shape) != tuple(rv.shape):
            return self.miss(where, "shape %r, written layout %r" % (tuple(iv.shape), tuple(rv.shape)))
        anysym = any(isinstance(e, RI.Sym) for row in rv.rows for e in row)
        if not anysym and iv.dtype == object:
            # (whatever the strictness about element kinds: an array of numbers is a numeric array - an object array of numbers
            #  cannot even be serialised)
            self.miss(where, "an array without parameters is held as an object array (declared %s)" % rv.kind)
        if not anysym and self.strict:
            want = {"int": "iu", "float": "f", "complex": "c"}[rv.kind]
            if iv.dtype.kind not in want:
                self.miss(where, "element type %s, declared %s" % (iv.dtype, rv.kind))
        for r, row in enumerate(rv.rows):
            for c, e in enumerate(row):
                el = np.ndarray.__getitem__(iv, (r, c))
                if isinstance(e, RI.Sym):
                    self.symexpr(el, e, "%s[%d,%d]" % (where, r, c))
                else:
                    self.number(el, e, "%s[%d,%d]" % (where, r, c))

    # ---- programs
    def program(self, ip, rp, what=("meta", "ops", "modes", "vars", "params")):
        if "meta" in what:
            if ip.name != rp.name:
                self.miss("name", "%r, written %r" % (ip.name, rp.name))
            if ip.version != rp.version:
                self.miss("version", "%r, written %r" % (ip.version, rp.version))
            for label, iv, rv in (("target", ip.target, rp.target), ("type", ip.programtype, rp.type)):
                if iv["name"] != rv["name"]:
                    self.miss(label, "%r, written %r" % (iv["name"], rv["name"]))
                self.kwargs(iv["options"], rv["options"], label + " options")
        if "ops" in what:
            iops = ip.operations
            if len(iops) != len(rp.operations) or len(ip) != len(rp.operations):
                self.miss("operations", "%d operations (len %d), expected %d" % (len(iops), len(ip), len(rp.operations)))
            else:
                for k, (io, ro) in enumerate(zip(iops, rp.operations)):
                    self.operation(io, ro, "op %d" % k)
        if "modes" in what:
            self.modeset(ip.modes, rp)
        if "vars" in what:
            self.variables(ip.variables, rp.variables)
        if "params" in what:
            if set(ip.parameters) != set(rp.parameters):
                self.miss("parameters", "%r, written %r" % (sorted(ip.parameters), sorted(rp.parameters)))
            if bool(ip.is_template()) != bool(rp.parameters):
                self.miss("is_template", "%r with written parameters %r" % (ip.is_template(), sorted(rp.parameters)))

    def operation(self, io, ro, where):
        if io.get("op") != ro["op"]:
            return self.miss(where, "gate %r, written %r" % (io.get("op"), ro["op"]))
        im = io.get("modes")
        if not isinstance(im, list) or len(im) != len(ro["modes"]):
            return self.miss(where, "modes %s, written %d modes" % (_short(im), len(ro["modes"])))
        for k, (a, b) in enumerate(zip(im, ro["modes"])):
            self.number(a, b, "%s mode %d" % (where, k))
        ia = io.get("args", [])
        ik = io.get("kwargs", {})
        if len(ia) != len(ro["args"]):
            return self.miss(where, "%d positional arguments, written %d" % (len(ia), len(ro["args"])))
        for k, (a, b) in enumerate(zip(ia, ro["args"])):
            self.value(a, b, "%s arg %d" % (where, k))
        self.kwargs(ik, ro["kwargs"], where + " kwargs")

    def kwargs(self, ik, rk, where):
        if list(ik.keys()) != list(rk.keys()):
            return self.miss(where, "keys %r, written %r" % (list(ik.keys()), list(rk.keys())))
        for k in rk:
            self.value(ik[k], rk[k], "%s[%s]" % (where, k))

    def modeset(self, imodes, rp):
        """the reported mode set is the union of all modes used (compared as sets of values; written modes are
        assumed pairwise distinct unless syntactically equal - a precondition of the generators)"""
        want = RI.distinct_modes(rp)
        if not isinstance(imodes, (set, frozenset)):
            return self.miss("modes", "not a set: %s" % _short(imodes))
        if self.symbolic:
            # equality as sets of values: every written mode is reported and every reported mode is written
            ims = list(imodes)
            for m in ims:
                if not P.is_number(m):
                    return self.miss("modes", "non-numeric mode %s" % _short(m))
            for w in want:
                ne = z3.simplify(z3.Not(z3.Or([T.eq(P.as_v(m), w) for m in ims]))) if ims else z3.BoolVal(True)
                if not z3.is_false(ne):
                    self.miss("modes", "a written mode is missing from the reported set", ne)
            for m in ims:
                ne = z3.simplify(z3.Not(z3.Or([T.eq(P.as_v(m), w) for w in want]))) if want else z3.BoolVal(True)
                if not z3.is_false(ne):
                    self.miss("modes", "the reported set contains a mode that was not written", ne)
        else:
            if set(int(m) for m in imodes) != set(int(w) for w in want):
                self.miss("modes", "%r, written %r" % (sorted(imodes), sorted(want)))

    def variables(self, ivars, rvars):
        if set(ivars.keys()) != set(rvars.keys()):
            return self.miss("variables", "names %r, declared %r" % (sorted(ivars), sorted(rvars)))
        for k, rv in rvars.items():
            self.value(ivars[k], rv, "variable %s" % k)


def _short(x):
    if P.is_proxy(x):
        return "%s (symbolic)" % P.tag_of(x).__name__
    if isinstance(x, (list, tuple)):
        return "[%s]" % ", ".join(_short(e) for e in x)
    if isinstance(x, np.ndarray) and x.dtype == object:
        return "array%r" % (x.shape,)
    s = "%s %r" % (type(x).__name__, x)
    return s[:120]
