"""C04 - instantiating a template equals substituting values into its text.

impl:  T = loads(template);  I = T(**values)  with symbolic parameter values (the lambdify'd functions run on proxies)
ref :  the reference interpreter run on the same text with {p} bound to the values (= loading the substituted text)
Also: T.parameters = written names (array-valued ones expanded), is_template() <=> non-empty, instance has no free
parameters, a missing value is refused with ValueError.
"""
import itertools
import sys

import numpy as np
import z3

from .. import common
from ..pysym import engine, proxies as P, stubs, terms as T, skel
from ..ref import expr as RX, interp as RI
from . import _script, _util as U, _cmp

PID = "C04"
MOD = "bbverif.checks.c04"

# statement templates; {a} {b} {c} are template parameters, %(f)s etc. symbolic literals in *parameter-free* expressions,
# coefficients inside parameter expressions are concrete (SymPy boundary)
SHAPES = {
    "pos": ["Dgate({a}, %(f)s) | %(m)s"],
    "pos_affine": ["Dgate(2*{a}+1, -{a}/4) | %(m)s"],
    "kw": ["Sgate(%(f)s, phi={b}) | %(m)s"],
    "kw_affine": ["Sgate(r=0.5*{a}-1.5, phi={b}*{a}) | %(m)s"],
    "two_in_one": ["Rgate({a}*{b}+{c}) | %(m)s"],
    "ratio": ["Rgate({a}/{b}) | %(m)s"],
    "power": ["Rgate({a}**2-{b}**3) | %(m)s"],
    "repeat": ["Dgate({a}) | %(m)s", "Sgate({a}, {a}*2) | %(m)s", "Rgate(-{a}) | %(m)s"],
    "scalar_init": ["float x = {a}*2+1", "Dgate(x, %(f)s) | %(m)s", "Sgate(x*3) | %(m)s"],
    "scalar_init_kw": ["float x = {a}", "float y = %(f)s", "Dgate(y, phi=x) | %(m)s"],
    "mixed_plain": ["Xgate(%(f)s) | %(m)s", "Dgate({a}) | %(m)s", "Vac | %(m)s", "Zgate(%(i)s, k={b}) | %(m)s"],
    "loop": ["for int i in 0:3", "    Dgate({a}*i, {b}) | i"],
    "loop_list": ["for int i in [2, 5]", "    Rgate({a}+i) | i", "    Sgate(k={b}) | [i, 7]"],
    "func": ["Rgate(sin({a})) | %(m)s"],
    "func_sqrt": ["Rgate(sqrt({a})*2) | %(m)s"],
    "pname": ["Dgate({p1}) | %(m)s"],
    "qname": ["Dgate(2*{q1_2}+0.5, {q}) | %(m)s", "Sgate({q0_1}, k={qq}*{q12_0}) | %(m)s"],
    "long_names": ["Dgate({alpha}*{alpha_1}, {a_lpha}) | %(m)s"],
    "no_params": ["Dgate(%(f)s) | %(m)s"],
    # one name in two roles: a parameter called like the variable it initialises, like an array, like a keyword / gate, like a loop variable
    "same_name_scalar": ["float alpha = {alpha}", "Dgate(alpha, {alpha}*2) | %(m)s"],
    "same_name_array": ["float array beta =", "    {beta}, %(f)s", "Gate(beta) | %(m)s", "Dgate({alpha}, beta[0]) | %(m)s"],
    "same_name_array_only": ["float array gamma =", "    %(f)s, {gamma}", "Gate(gamma) | %(m)s"],
    "same_name_keyword": ["Dgate(phi={phi}, r={Dgate}) | %(m)s"],
    "same_name_loopvar": ["for int i in [1, 2]", "    Dgate({i}*i, {j}) | i"],
}
# arrays: (dtype, rows of elements) with 'a','b','c' = bare parameters, 'L' literal
ARRAYS = {
    "arr_1p": ("float", [["a", "L"]]),
    "arr_2p_row": ("float", [["a", "L", "b", "L"]]),
    "arr_2p_2x2": ("float", [["L", "a"], ["b", "L"]]),
    "arr_2p_adjacent": ("float", [["a", "b"], ["L", "L"]]),
    "arr_3p_2x3": ("float", [["a", "L", "b"], ["L", "c", "L"]]),
    "arr_all_params": ("float", [["a", "b"], ["c", "a"]]),
    "arr_complex": ("complex", [["L", "a"], ["b", "L"]]),
    "arr_2x3_last": ("float", [["L", "L", "L"], ["L", "a", "b"]]),
    "arr_3x1": ("float", [["a"], ["L"], ["b"]]),
}
WHOLE = {"whole_2x2": ("float", 2, 2, True), "whole_1x3": ("complex", 1, 3, True), "whole_3x2_unindented": ("float", 3, 2, False)}
USES = ["none", "arg", "kwarg", "idx", "loop_arg", "loop_kwarg", "loop_idx", "loop_both"]


class Sub(dict):
    def __init__(self, lv, modes):
        self.lv, self.modes = lv, modes

    def __getitem__(self, k):
        lv = self.lv
        if k[0] == "m":
            t = lv.int()
            if lv.symbolic:
                self.modes.append(lv.vars[-1][2])
            return t
        return {"i": lv.int, "f": lv.float}[k[0]]()


def _fortran_edit(Tm):
    """the loaded template with its parameter arrays replaced by Fortran-ordered copies (same contents, other memory layout),
    the way a program edited through the API may hold them"""
    for k, arr in list(Tm._var.items()):
        if isinstance(arr, np.ndarray) and arr.ndim == 2 and arr.dtype == object and min(arr.shape) > 1:
            new = np.array(np.ndarray.tolist(arr), dtype=object).copy(order="F")
            Tm._var[k] = new
            for o in Tm._operations:
                if "args" in o:
                    o["args"] = [new if a is arr else a for a in o["args"]]
                if "kwargs" in o:
                    o["kwargs"] = {kk: (new if a is arr else a) for kk, a in o["kwargs"].items()}
    return Tm


def gen(spec, lv):
    if spec[-1] == "fortran":
        g = gen(spec[:-1], lv)
        g["edit"] = _fortran_edit
        return g
    kind = spec[0]
    if kind == "symx":
        # systematic expression shapes over parameters (generator shared with C01)
        from . import c01
        return {"text": c01.symx_text(spec[1]), "pre": []}
    modes = []
    sub = Sub(lv, modes)
    L = ["name c04", "version 1.0", ""]
    if kind == "stmt":
        for nm in spec[1]:
            L += [l.replace("{", "{{").replace("}", "}}") % sub if "%(" in l else l for l in SHAPES[nm]]
        L = [l.replace("{{", "{").replace("}}", "}") for l in L]
    elif kind == "array":
        _, nm, use = spec
        dt, rows = ARRAYS[nm]
        L.append("%s array A =" % dt)
        for row in rows:
            els = []
            for e in row:
                if e == "L":
                    els.append({"int": lv.int, "float": lv.float}[dt]() if dt != "complex" else lv.complex("a+bj"))
                else:
                    els.append("{%s}" % e)
            L.append("    " + ", ".join(els))
        L += _use(use, sub)
    elif kind == "whole":
        _, nm, use = spec
        dt, r, c, indented = WHOLE[nm]
        L.append("%s array A[%d, %d] =" % (dt, r, c))
        L.append(("    " if indented else "") + "{w}")
        L += _use(use, sub)
    pre = []
    if lv.symbolic and len(modes) > 1:
        pre.append(z3.Distinct(modes))
    return {"text": "\n".join(L) + "\n", "pre": pre}


def _use(use, sub):
    if use == "arg":
        return ["Gate(A) | %s" % sub["m"]]
    if use == "kwarg":
        return ["Gate(%s, U=A) | %s" % (sub["f"], sub["m"])]
    if use == "idx":
        return ["Dgate(A[1], A[0]) | %s" % sub["m"]]
    # the array inside a for-loop body (the loop is unrolled at load time; the instance must still see the values)
    if use == "loop_arg":
        return ["for int i in 0:2", "    Gate(A) | i"]
    if use == "loop_kwarg":
        return ["for int i in [1, 4]", "    Gate(%s, U=A) | [i, %s]" % (sub["f"], sub["m"])]
    if use == "loop_idx":
        return ["for int i in 0:2", "    Dgate(A[i], k=A[0]) | i"]
    if use == "loop_both":
        return ["Gate(A) | %s" % sub["m"], "for int i in [2, 3]", "    Gate(i, A) | i", "Gate(A) | %s" % sub["m"]]
    return ["Vac | %s" % sub["m"]]


def gen_specs(tier, seed):
    specs = [("stmt", (nm,)) for nm in SHAPES]
    names = [n for n in SHAPES if n not in ("func", "func_sqrt", "no_params")]
    pairs = list(itertools.permutations(names, 2))
    if tier == "quick":
        pairs = pairs[::5]
    specs += [("stmt", p) for p in pairs]
    for nm in ARRAYS:
        for use in USES:
            specs.append(("array", nm, use))
    for nm in WHOLE:
        for use in ("none", "arg", "idx", "loop_arg", "loop_kwarg", "loop_idx", "loop_both"):
            specs.append(("whole", nm, use))
    # parameter arrays in another memory layout (a template edited through the API)
    specs += [s + ("fortran",) for s in specs if s[0] in ("array", "whole") and s[2] in ("arg", "kwarg", "loop_arg")
              and (s[0] == "whole" or min(len(ARRAYS[s[1]][1]), len(ARRAYS[s[1]][1][0])) > 1)]
    from . import c01
    sx = [x for x in c01.symx_specs() if x[0] == "param" and x[1] not in (("a", "b", "a"), ("a", "3", "2"))]
    specs += [("symx", x) for x in (sx[(seed % 9)::9] if tier == "quick" else sx)]
    return specs


# ----------------------------------------------------------------------------- runner
def written_params(text):
    import re
    return sorted(set(re.findall(r"\{([A-Za-z][0-9A-Za-z_]*)\}", text)))


def build_values(text, symbolic, given=None):
    """parameter name -> value.  whole-array parameters get nested lists."""
    import re
    names = written_params(text)
    whole = re.search(r"array A\[(\d+), (\d+)\] =\n\s*\{w\}", text)
    vals = {}
    flat = {}
    k = 0
    for n in names:
        if n == "w" and whole:
            r, c = int(whole.group(1)), int(whole.group(2))
            rows = []
            for i in range(r):
                row = []
                for j in range(c):
                    nm = "w_%d_%d" % (i, j)
                    v = T.V("float", z3.Real("pv_" + nm)) if symbolic else given[k]
                    k += 1
                    flat[nm] = v
                    row.append(v)
                rows.append(row)
            vals[n] = rows
        else:
            v = T.V("float", z3.Real("pv_" + n)) if symbolic else given[k]
            k += 1
            vals[n] = v
            flat[n] = v
    return vals, flat


def run_spec(spec):
    w = _script.winit()
    bb = w["bb"]
    out = {"spec": spec, "result": "holds", "paths": 0, "stats": None, "why": None, "cex": None, "funcs": [], "reach": 0}
    lv = skel.Leaves()
    g = gen(spec, lv)
    text = g["text"]
    out["text"] = text
    vals, flat = build_values(text, True)
    pvars = [v.re for v in flat.values()]
    try:
        tmpl_cases = _script.ref_cases(w, text, lv, True)
        inst_cases = RI.run_all(lambda forks: RI.Interp(w["lang"].real_tokens_pos(text), T.Z3Alg, lv.leaf, True, params=flat))
    except RX.RefError as e:
        out["result"] = "inconclusive"
        out["why"] = "reference: %s" % e
        return out
    tmpl = tmpl_cases[0][1]
    inst = inst_cases[0]
    if tmpl[0] != "ok" or inst[1][0] != "ok" or len(inst_cases) != 1:
        out["result"] = "inconclusive"
        out["why"] = "reference rejects the template: %r" % (tmpl[1],)
        return out
    rp_t = tmpl[1]
    rconds, (_, rp_i), it = inst
    E = engine.Engine(max_paths=400)
    E.reset_hooks.append(stubs.reset_tables)
    E.base = list(lv.cons) + list(g["pre"]) + list(it.dom.conds)
    names = sorted(vals)

    def proxify(v):
        if isinstance(v, list):
            return [proxify(x) for x in v]
        return P.SNum(v, float)

    def run():
        Tm = bb.loads(text)
        if g.get("edit"):
            Tm = g["edit"](Tm)
        res = {"T": Tm, "params": set(Tm.parameters), "is_template": Tm.is_template()}
        if names:
            kw = {n: proxify(v) for n, v in vals.items()}
            res["I"] = Tm(**kw)
            # a missing value must be refused with ValueError
            miss = {}
            for n in names:
                kw2 = dict(kw)
                del kw2[n]
                try:
                    Tm(**kw2)
                    miss[n] = "returned a program"
                except ValueError:
                    miss[n] = None
                except Exception as e:  # noqa
                    miss[n] = "%s: %s" % (type(e).__name__, e)
            res["missing"] = miss
        return res

    with U.coverage(out["funcs"]):
        try:
            paths = E.explore(run)
        except engine.PathLimit as e:
            out.update(result="inconclusive", why=str(e), stats=E.stats)
            return out
    out["paths"] = len(paths)

    class LV2:
        """leaf values + parameter values as one model-readable variable list"""
        vars = lv.vars + [("pv%d" % i, "float", v) for i, v in enumerate(pvars)]

        @staticmethod
        def model_values(mdl):
            return lv.model_values(mdl) + [T._ratf(mdl.eval(v, model_completion=True)) for v in pvars]

    nleaf = len(lv.vars)
    conc = lambda allvals: concrete_check(spec, allvals[:nleaf], allvals[nleaf:], w)  # noqa
    for pth in paths:
        if pth.kind == "abort":
            out.update(result="inconclusive", why="abort: %s" % pth.value)
            continue
        r0, _ = E.query(pth, z3.BoolVal(True))
        if r0 != "sat":
            if r0 != "unsat":
                out.update(result="inconclusive", why="solver %s" % r0)
            continue
        out["reach"] += 1
        cands = []
        if pth.kind == "exc":
            cands.append(("raises %s: %s" % (type(pth.value).__name__, str(pth.value)[:160]), z3.BoolVal(True)))
        else:
            res = pth.value
            want = set(rp_t.parameters)
            if res["params"] != want:
                cands.append(("template.parameters is %r, written %r" % (sorted(res["params"]), sorted(want)), z3.BoolVal(True)))
            if bool(res["is_template"]) != bool(want):
                cands.append(("is_template() is %r with written parameters %r" % (res["is_template"], sorted(want)), z3.BoolVal(True)))
            if "I" in res:
                c = _cmp.Cmp(True, it.symfactory, strict_kinds=False)
                try:
                    c.program(res["I"], rp_i, ("ops", "vars"))
                except engine.Abort as e:
                    out.update(result="inconclusive", why="abort in comparison: %s" % e)
                    continue
                if set(res["I"].parameters):
                    c.miss("instance", "still has free parameters %r" % sorted(res["I"].parameters))
                if res["I"].is_template():
                    c.miss("instance", "is_template() is True")
                for n, m in res["missing"].items():
                    if m is not None:
                        c.miss("call without a value for %s" % n, m + " (ValueError expected)")
                for desc, cond in c.out:
                    cands.append((desc, z3.BoolVal(True) if cond is True else E.specialize(pth, cond)))
        for desc, cond in cands:
            res, cex = U.find_replayable(E, pth, cond, LV2, conc)
            if res == "unsat":
                continue
            if res == "unknown":
                out.update(result="inconclusive", why="solver unknown: " + desc)
                continue
            if res == "unconfirmed":
                out.setdefault("unconfirmed", []).append({"what": desc, "text": text})
                continue
            cex["symbolic_what"] = desc
            out.update(result="violation", cex=cex, stats=E.stats)
            return out
    out["stats"] = E.stats
    if out["reach"] == 0 and out["result"] == "holds":
        out.update(result="inconclusive", why="vacuous")
    if out["result"] in ("holds", "inconclusive"):
        U.validate_native(E, paths, LV2, conc, out, nmax=1)
    if out["result"] in ("holds", "inconclusive") and names:
        # (native runs: they do not depend on whether the symbolic run reached a verdict)
        # the same instantiation with the values handed over as other Python / NumPy types (native runs)
        nl = len(lv.vars)
        leaf0 = [(0.5 + 0.75 * i if k == "float" else 2 + i) for i, (_, k, _) in enumerate(lv.vars)]
        npar = len(pvars)
        for kind in VALUE_KINDS[1:]:
            if kind.startswith("arrays") and not any(isinstance(v, list) for v in vals.values()):
                continue
            # (integers small enough that no product of them leaves 64 bits in whatever order SymPy multiplies them)
            for pv in ([3 + 2 * i for i in range(npar)], [10003 + 2 * i for i in range(npar)]) if kind in ("python int", "numpy int64", "arrays: int64 dtype") else (
                    [0.5 + 0.25 * i for i in range(npar)],):
                rr = concrete_check(spec, leaf0, pv, w, kind=kind)
                out["validated"] = out.get("validated", 0) + 1
                if isinstance(rr, dict):
                    rr["symbolic_what"] = "values passed as %s: %s" % (kind, rr["what"])
                    rr["values"] = list(rr["values"]) + [kind]
                    out.update(result="violation", cex=rr)
                    return out
    return out


VALUE_KINDS = ["python float", "python int", "numpy int64", "numpy float32", "numpy float64",
               "arrays: fortran order", "arrays: transposed view", "arrays: reversed view", "arrays: tuples", "arrays: int64 dtype", "arrays: float32 dtype",
               "python complex", "numpy complex128", "arrays: complex128 dtype",
               # magnitudes far from 1: a value is what it is however small it is next to the machine epsilon
               "python float tiny", "python complex tiny", "python float huge"]


def _as_kind(vals, flat, kind):
    """the same parameter values handed over as other Python / NumPy types (what the caller may pass is not only floats and lists)"""
    import fractions
    conv = {"python int": int, "numpy int64": np.int64, "numpy float32": np.float32, "numpy float64": np.float64,
            "python complex": complex, "numpy complex128": np.complex128,
            "fraction": lambda x: fractions.Fraction(x).limit_denominator(64)}.get(kind)
    out = {}
    for n, v in vals.items():
        if isinstance(v, list):
            a = np.array(v)
            if kind == "arrays: fortran order":
                v = np.asfortranarray(a)
            elif kind == "arrays: transposed view":
                v = a.T.copy().T
            elif kind == "arrays: reversed view":
                v = a[::-1, ::-1].copy()[::-1, ::-1]
            elif kind == "arrays: tuples":
                v = tuple(tuple(r) for r in v)
            elif kind == "arrays: int64 dtype":
                v = a.astype(np.int64)
            elif kind == "arrays: float32 dtype":
                v = a.astype(np.float32)
            elif kind == "arrays: complex128 dtype":
                v = a.astype(np.complex128)
            elif conv and kind.startswith("numpy"):
                v = [[conv(x) for x in r] for r in v]
        elif conv:
            v = conv(v)
        out[n] = v
    return out


def concrete_check(spec, leafvals, parvals, w=None, kind="python float"):
    w = w or _script.plain_env()
    bb = w["bb"]
    lv = skel.Leaves(values=leafvals)
    g = gen(spec, lv)
    text = g["text"]
    integral = kind in ("python int", "numpy int64", "arrays: int64 dtype")
    cplx = "complex" in kind
    sc = 1e-15 if "tiny" in kind else (1e15 if "huge" in kind else 1.0)
    sci = sc
    vals, flat = build_values(text, False, [(int(x) if integral else (complex(x * sc, (0.5 * x + 0.25) * sci) if cplx else float(x) * sc)) for x in parvals])
    toks = w["lang"].real_tokens_pos(text)
    T.PyAlg.overflow = False
    T.PyAlg.fscale = 0.0
    try:
        rt = RI.Interp(toks, T.PyAlg, lv.leaf, False, params=None).run()
        it = RI.Interp(toks, T.PyAlg, lv.leaf, False, params=flat)
        ri = it.run()
    except (RX.RefError, RI.Reject, ArithmeticError, ValueError):
        return "skip"
    except Exception as e:  # noqa
        raise common.HarnessError("reference interpreter failed on %r: %r" % (text, e))
    if not it.dom.ok or T.PyAlg.overflow:
        return "skip"       # (a division by zero, a non-finite value or an integer beyond 64 bits: outside the domain)
    base = {"text": text, "values": list(leafvals) + list(parvals), "call": repr(vals), "kind": kind}
    import blackbird.auxiliary as aux
    aux._VAR.clear()
    aux._PARAMS.clear()
    try:
        with np.errstate(all="ignore"):
            Tm = bb.loads(text)
            if g.get("edit"):
                Tm = g["edit"](Tm)
            want = set(rt.parameters)
            if set(Tm.parameters) != want:
                return dict(base, what="template.parameters", observed=repr(sorted(Tm.parameters)), expected=repr(sorted(want)))
            if bool(Tm.is_template()) != bool(want):
                return dict(base, what="is_template()", observed=repr(Tm.is_template()), expected=repr(bool(want)))
            if not vals:
                return None
            I = Tm(**(_as_kind(vals, flat, kind) if kind != "python float" else vals))
    except Exception as e:  # noqa
        return dict(base, what="raises %s" % type(e).__name__, observed="%s: %s" % (type(e).__name__, e), expected="a program")
    finally:
        aux._VAR.clear()
        aux._PARAMS.clear()
    c = _cmp.Cmp(False, it.symfactory, strict_kinds=False)
    if "float32" in kind:
        c.rel = 1e-5                 # single-precision values give single-precision results
    c.int_stays_int = integral       # integer values in integer-preserving expressions give integers (as the substituted script does)
    c.program(I, ri, ("ops", "vars"))
    if set(I.parameters):
        c.miss("instance", "still has free parameters %r" % sorted(I.parameters))
    for n in vals:
        kw2 = dict(vals)
        del kw2[n]
        try:
            Tm(**kw2)
            c.miss("call without %s" % n, "returned a program (ValueError expected)")
        except ValueError:
            pass
        except Exception as e:  # noqa
            c.miss("call without %s" % n, "%s (ValueError expected)" % type(e).__name__)
    if not c.out:
        return None
    return dict(base, what=c.out[0][0], observed="; ".join(d for d, _ in c.out[:4]), expected="instantiation == substitution (reference interpreter with the values bound)")


REPLAY = '''#!/usr/bin/env python
# C04 replay: loads the template with the real blackbird, instantiates it with concrete values and compares with the
# reference interpreter run on the same text with the values substituted; exit 1 if they differ.
import sys; sys.path.insert(0, %(root)r)
from bbverif.checks import c04
sys.exit(c04.replay(%(spec)r, %(vals)r))
'''


def replay(spec, allvals):
    lv = skel.Leaves()
    gen(spec, lv)
    n = len(lv.vars)
    kind = "python float"
    if allvals and isinstance(allvals[-1], str):
        kind, allvals = allvals[-1], allvals[:-1]
    r = concrete_check(spec, allvals[:n], allvals[n:], kind=kind)
    if r in (None, "skip"):
        print("property holds for these values" if r is None else "outside the domain")
        return 0
    print("template:\n" + r["text"])
    print("call    :", r["call"])
    print("what    :", r["what"])
    print("observed:", r["observed"])
    print("expected:", r["expected"])
    return 1


def main():
    t = common.tier()
    rep = common.Report(PID, "model_checking")
    rep.rule = ("one case = one template skeleton (statement shapes / array layouts with bare parameters / whole-array parameters x use) loaded, "
                "instantiated with symbolic parameter values and compared with the reference run on the substituted text")
    rep.bounds = {"parameters": "<=3 per template (+ whole arrays up to 3x2)", "arrays": "<=2x3", "coefficients inside parameter expressions": "concrete dyadic numbers (2, 3, 4, 0.5, 1.5, 1)",
                  "array uses": "none / argument / keyword / index / inside a loop body; also with the parameter arrays replaced by Fortran-ordered copies",
                  "symbolic expression shapes": "the C01 family over parameters (quick: every 9th; thorough: all)"}
    rep.assumptions = [
        "instantiated values are compared by value (scalar kinds of instances are not compared: {a}*0 is the integer 0 in SymPy; a fully instantiated array must be a numeric array, its element kind is not compared)",
        "parameter values are symbolic reals (float-tagged); floats are reals, so 'cancels catastrophically' is outside the model by construction",
        "divisors != 0 (reference domain conditions) are assumed",
        "SymPy boundary: literal coefficients inside an expression that contains a parameter are concrete",
        "reference for 'substituting values into the text' = reference interpreter with {p} bound to the value",
    ]
    specs = gen_specs(t, common.seed())
    results = U.run_parallel(run_spec, specs)
    U.collect(rep, results, key_fn=lambda r: U.shape_key(r["spec"][1]) + ": " + _script.default_key(r),
              replay_fn=lambda r: REPLAY % {"root": common.ROOT, "spec": r["spec"], "vals": r["cex"]["values"]},
              sample_fn=lambda r: {"template": r["text"], "paths": r["paths"]})
    return rep.finish()


if __name__ == "__main__":
    sys.exit(main())
