"""C03 - expressions evaluate to their arithmetic value under the grammar's precedence.

O1 the real parser + the real `_expression` (on proxies) vs. the Pratt reference, for every
   expression shape of the bounded generator, all leaf values at once (solver);
O2 literal forms: L(INT) <= L(int()), L(FLOAT) <= L(float()), L(COMPLEX) <= L(complex()) as bounded
   automata inclusions over symbolic characters (E1), and `_number` dispatch by E2.
"""
import itertools
import sys
import time

import z3

from .. import common
from ..pysym import engine, proxies as P, stubs, terms as T, skel
from ..ref import expr as R
from . import _util as U

PID = "C03"
OPS = ["+", "-", "*", "/", "**"]


# ----------------------------------------------------------------------------- generator
def gen_specs(tier, seed):
    """spec = (decl_kind, items) ; items: tuples
         ('l', kind[, form]) literal leaf; ('u', '+'|'-') unary; ('o', op) binary; '(' ; ')' ;
         ('f', name) function followed by '(' ... ')' ; ('pi',) ; ('v', kind) declared scalar variable ;
         ('a', kind) array element A[k] with symbolic k"""
    specs = []
    L = lambda k, form=None: ("l", k, form) if form else ("l", k)  # noqa
    kinds1 = ["int", "float", "complex"]
    cforms = ["bj", "a+bj", "a-bj", "-bj", "-a-bj"]
    # single leaves incl. every complex form, pi, variables, array elements, unary stacks
    for k in kinds1:
        for u in ([], ["-"], ["+"], ["-", "-"], ["+", "-"]):
            specs.append(("none", [("u", x) for x in u] + [L(k)]))
    for f in cforms:
        specs.append(("none", [L("complex", f)]))
        specs.append(("none", [("u", "-"), L("complex", f)]))
    specs.append(("none", [("pi",)]))
    specs.append(("none", [("u", "-"), ("pi",), ("o", "*"), L("float")]))
    for k in kinds1:
        specs.append(("var", [("v", k)]))
        specs.append(("var", [("u", "-"), ("v", k), ("o", "**"), L("int")]))
        specs.append(("var", [L("int"), ("o", "/"), ("v", k)]))
        specs.append(("arr", [("a", k)]))
        specs.append(("arr", [L("float"), ("o", "-"), ("a", k), ("o", "*"), L("int")]))
        specs.append(("arr2", [("a", k), ("o", "/"), ("a", k)]))
    # functions
    for fn in T.FUNCS:
        for k in (kinds1 if tier == "thorough" else ["float", "int"]):
            specs.append(("none", [("f", fn), "(", L(k), ")"]))
        specs.append(("none", [L("float"), ("o", "*"), ("f", fn), "(", L("float"), ("o", "+"), L("int"), ")", ("o", "**"), L("int")]))
        # arguments at the edge of a function's domain are reached through these two shapes (native boundary valuations below)
        specs.append(("none", [("f", fn), "(", ("u", "-"), L("float"), ")"]))
        specs.append(("none", [("f", fn), "(", L("int"), ("o", "-"), L("float"), ")"]))
    specs.append(("none", [("f", "sin"), "(", ("f", "cos"), "(", L("float"), ")", ")"]))
    specs.append(("none", [("u", "-"), ("f", "sqrt"), "(", L("int"), ")", ("o", "**"), L("int")]))
    # one operator: all kind pairs, unary on either side
    us = [[], ["-"]] if tier == "quick" else [[], ["-"], ["+"]]
    for op in OPS:
        for ka, kb in itertools.product(kinds1, kinds1):
            for ua, ub in itertools.product(us, us):
                specs.append(("none", [("u", x) for x in ua] + [L(ka)] + [("o", op)] + [("u", x) for x in ub] + [L(kb)]))
    # two operators: brackets none / left / right
    k2 = [("int", "int", "int"), ("float", "float", "float"), ("int", "float", "int"), ("float", "int", "int"),
          ("int", "int", "float"), ("complex", "int", "float"), ("int", "complex", "int"), ("float", "int", "complex")]
    if tier == "thorough":
        k2 = list(itertools.product(kinds1, kinds1, kinds1))
    for o1, o2 in itertools.product(OPS, OPS):
        for ks in k2:
            for br in ("none", "left", "right"):
                for um in (range(4) if tier == "quick" else range(8)):
                    # um bit i: unary minus on leaf i (quick: at most leaves 0/1)
                    leaves = []
                    for i, k in enumerate(ks):
                        pre = [("u", "-")] if (um >> i) & 1 else []
                        leaves.append(pre + [L(k)])
                    if br == "none":
                        items = leaves[0] + [("o", o1)] + leaves[1] + [("o", o2)] + leaves[2]
                    elif br == "left":
                        items = ["("] + leaves[0] + [("o", o1)] + leaves[1] + [")"] + [("o", o2)] + leaves[2]
                    else:
                        items = leaves[0] + [("o", o1)] + ["("] + leaves[1] + [("o", o2)] + leaves[2] + [")"]
                    specs.append(("none", items))
    # three operators (no brackets / one bracket pair), int-float typings
    if tier == "thorough":
        k3 = list(itertools.product(kinds1, repeat=4))
        for ops in itertools.product(OPS, repeat=3):
            for ks in k3:
                for br in (None, (0, 1), (1, 2), (2, 3), (0, 2), (1, 3)):
                    for um in (0, 1, 2, 4, 8):
                        if len(set(ks)) > 2 and (um not in (0, 2) or br in ((0, 2), (1, 3))):
                            continue      # all-kind typings: fewer sign/bracket variants
                        items = []
                        for i, k in enumerate(ks):
                            if br and br[0] == i:
                                items.append("(")
                            if (um >> i) & 1:
                                items.append(("u", "-"))
                            items.append(L(k))
                            if br and br[1] == i:
                                items.append(")")
                            if i < 3:
                                items.append(("o", ops[i]))
                        specs.append(("none", items))
    else:
        for ops in itertools.product(OPS, repeat=3):
            for ks in (("int",) * 4, ("float", "int", "int", "float")):
                specs.append(("none", [x for i, k in enumerate(ks) for x in ([L(k)] + ([("o", ops[i])] if i < 3 else []))]))
    return specs


DECLS = {
    "int": "int vi = {}", "float": "float vf = {}", "complex": "complex vc = {}",
}


def render(spec, lv, spaced=True):
    """-> (script text, expression text, info).  Declarations first so leaf allocation order is fixed."""
    decl_kind, items = spec
    lines = ["name c03", "version 1.0"]
    info = {"vars": {}, "arrays": {}, "idx": []}
    if decl_kind == "var":
        for k, nm in (("int", "vi"), ("float", "vf"), ("complex", "vc")):
            lex = {"int": lv.int, "float": lv.float}[k]() if k != "complex" else lv.complex("a+bj")
            lines.append("%s %s = %s" % (k, nm, lex))
            info["vars"][nm] = (k, lex)
    if decl_kind in ("arr", "arr2"):
        for k, nm in (("int", "Ai"), ("float", "Af"), ("complex", "Ac")):
            rows = []
            for r in range(2):
                row = []
                for c in range(3 if decl_kind == "arr" else 2):
                    row.append({"int": lv.int, "float": lv.float}[k]() if k != "complex" else lv.complex("a-bj"))
                rows.append(row)
            lines.append("%s array %s =" % (k, nm))
            for row in rows:
                lines.append("    " + ", ".join(row))
            info["arrays"][nm] = (k, rows)
    parts = []
    for it in items:
        if it == "(" or it == ")":
            parts.append(it)
        elif it[0] == "l":
            if it[1] == "int":
                parts.append(lv.int())
            elif it[1] == "float":
                parts.append(lv.float())
            else:
                parts.append(lv.complex(it[2] if len(it) > 2 else "a+bj"))
        elif it[0] in ("u", "o"):
            parts.append(it[1])
        elif it[0] == "f":
            parts.append(it[1])
        elif it[0] == "pi":
            parts.append("pi")
        elif it[0] == "v":
            parts.append({"int": "vi", "float": "vf", "complex": "vc"}[it[1]])
        elif it[0] == "a":
            k = lv.int()
            info["idx"].append(k)
            parts.append({"int": "Ai", "float": "Af", "complex": "Ac"}[it[1]] + "[" + k + "]")
    etext = (" " if spaced else "").join(parts)
    lines.append("Dgate(%s) | 0" % etext)
    return "\n".join(lines) + "\n", etext, info


def reference(lv, etext, info, lang, symbolic):
    """Pratt reference over the real token stream of the expression text"""
    alg = T.Z3Alg if symbolic else T.PyAlg
    ctx = R.Ctx(alg, lv.leaf, symbolic=symbolic)
    for nm, (k, lex) in info["vars"].items():
        toks = U.lex(lang, lex)
        ctx.vars[nm] = R.evaluate(ctx, toks)      # type-compatible initialiser: value as written
    for nm, (k, rows) in info["arrays"].items():
        ctx.arrays[nm] = [[R.evaluate(ctx, U.lex(lang, e)) for e in row] for row in rows]
    toks = U.lex(lang, etext)
    val = R.evaluate(ctx, toks)
    return val, ctx.dom


# ----------------------------------------------------------------------------- worker
_W = {}


def _init():
    if "mods" not in _W:
        _W["mods"] = stubs.install()
        from ..atnsmt import lang as langmod
        _W["lang"] = langmod.Lang()
        import blackbird
        _W["bb"] = blackbird
    return _W


def run_spec(arg):
    spec, spaced = arg
    w = _init()
    bb = w["bb"]
    out = {"spec": spec, "spaced": spaced, "result": "holds", "paths": 0, "stats": None, "why": None, "cex": None, "funcs": []}
    lv = skel.Leaves()
    text, etext, info = render(spec, lv, spaced)
    out["text"] = text
    try:
        ref, dom = reference(lv, etext, info, w["lang"], True)
    except R.RefError as e:
        # not a well-formed expression under the grammar (e.g. unspaced `2-3j` merges into one COMPLEX token):
        # outside C03's domain; that it is rejected is C10's claim
        out["result"] = "skipped"
        out["why"] = "reference: %s" % e
        return out
    E = engine.Engine()
    E.reset_hooks.append(stubs.reset_tables)
    E.base = list(lv.cons) + list(dom.conds)

    def run():
        p = bb.loads(text)
        return p.operations[0]["args"][0]

    with U.coverage(out["funcs"]):
        try:
            paths = E.explore(run)
        except engine.PathLimit as e:
            out["result"] = "inconclusive"
            out["why"] = str(e)
            out["stats"] = E.stats
            return out
    out["paths"] = len(paths)
    rkind = R.kind_of(ref)
    for pth in paths:
        if pth.kind == "abort":
            out["result"] = "inconclusive"
            out["why"] = "abort: %s" % pth.value
            continue
        r0, m0 = E.query(pth, z3.BoolVal(True))
        if r0 == "unsat":
            continue          # vacuous path
        if r0 != "sat":
            out["result"] = "inconclusive"
            out["why"] = "solver %s on path condition" % r0
            continue
        out["reach"] = out.get("reach", 0) + 1
        cands = []
        if pth.kind == "exc":
            cands.append(("raises %s: %s" % (type(pth.value).__name__, pth.value), z3.BoolVal(True)))
        else:
            val = pth.value
            if not P.is_proxy(val):
                # taint audit: the reference depends on the leaves, a plain number here means silent concretisation
                if lv.vars and not _is_const(ref):
                    out["result"] = "inconclusive"
                    out["why"] = "taint: implementation returned a concrete %r" % (type(val),)
                    continue
                iv, ikind = T.const(val), R.kind_of(val)
            else:
                iv, ikind = P.as_v(val), ("int" if val.v.kind == "bool" else val.v.kind)
            if ikind != rkind:
                cands.append(("result kind %s (type %s), reference kind %s" % (ikind, P.tag_of(val).__name__, rkind), z3.BoolVal(True)))
            else:
                ne = E.specialize(pth, z3.Not(T.eq(iv, ref)))
                if not z3.is_false(z3.simplify(ne)):
                    cands.append(("value differs from the reference", ne))
        for what, cond in cands:
            res, cex = U.find_replayable(E, pth, cond, lv, lambda vals: concrete_check(spec, spaced, vals, w))
            if res == "unsat":
                continue
            if res == "unknown":
                out["result"] = "inconclusive"
                out["why"] = "solver unknown"
                continue
            if res == "unconfirmed":
                out.setdefault("unconfirmed", []).append({"what": what, "text": text})
                continue
            out["result"] = "violation"
            out["cex"] = {"what": what, "values": cex["values"], "text": cex["text"], "observed": cex["observed"],
                          "expected": cex["expected"], "expr": cex["expr"]}
            out["stats"] = E.stats
            return out
    out["stats"] = E.stats
    ops = [it for it in spec[1] if isinstance(it, tuple)]
    if out["result"] in ("holds", "inconclusive") and sum(1 for it in ops if it[0] == "f") == 1 and len(lv.vars) <= 2 and not info["idx"]:
        # arguments at and next to the edges of the functions' domains (0, 1, -1 and their neighbours a few 1e-13 away, tiny and
        # large magnitudes): where the result exists it must be the function's value there, not the value at the edge
        # (validation runs on concrete doubles; the symbolic model has uninterpreted functions over the reals)
        edge = [0.9999999999999, 1.0000000000001, 0.99999999999995, 1.00000000000005, 1e-13, 3e-13, 0.0, 1.0, 1e-300, 1e-8, 0.5, 2.0, 1e15]
        nf = sum(1 for (_, k, _) in lv.vars if k == "float")
        for b in edge:
            for iv in ((0, 1, 2) if nf < len(lv.vars) else (0,)):
                vals = [(b if k == "float" else iv) for (_, k, _) in lv.vars]
                if nf == 0:
                    vals = [int(b)] * len(lv.vars) if b in (0.0, 1.0, 2.0) else None
                if vals is None:
                    continue
                r = concrete_check(spec, spaced, vals, w)
                if r == "skip":
                    continue
                out["validated"] = out.get("validated", 0) + 1
                if isinstance(r, dict):
                    r["what"] = "native run at the edge of a function's domain differs from the reference: " + str(r.get("what") or "value")
                    out["result"] = "violation"
                    out["cex"] = r
                    break
            if out["result"] == "violation":
                break
    if out["result"] in ("holds", "inconclusive"):
        # (native runs do not depend on whether the symbolic run reached a verdict)
        U.validate_native(E, paths, lv, lambda vals: concrete_check(spec, spaced, vals, w), out, nmax=1)
        if out["result"] == "holds":
            # floats are reals in the symbolic model; the property also promises rel. 1e-12 for integers up to 64 bits, so two
            # adversarial concrete valuations (integers around 2**53 mixed with small floats) are run natively against the
            # exact python reference (validation runs, not the deciding step)
            for big in ([2 ** 53 + 1, 2 ** 53, 2 ** 53 - 1, 3, 2 ** 53 + 3], [3, 2 ** 53 + 1, 2 ** 53, 5, 7]):
                vals, ki, kf = [], 0, 0
                for (_, kind, _) in lv.vars:
                    if kind == "int":
                        vals.append(big[ki % len(big)])
                        ki += 1
                    else:
                        vals.append([0.5, 1.5, 0.25, 2.5][kf % 4])
                        kf += 1
                if info["idx"] or any(isinstance(it, tuple) and (it == ("o", "**") or it[0] == "f") for it in spec[1]):
                    continue      # the adversarial valuation targets integer/float mixing in + - * / only
                r = concrete_check(spec, spaced, vals, w)
                out["validated"] = out.get("validated", 0) + 1
                if isinstance(r, dict):
                    r["what"] = "native run on large integers differs from the exact reference: " + str(r.get("what") or "value")
                    out["result"] = "violation"
                    out["cex"] = r
                    break
        ops = [it for it in spec[1] if isinstance(it, tuple)]
        if (out["result"] == "holds" and ("o", "**") in ops and not info["idx"] and all(k == "int" for (_, k, _) in lv.vars)
                and not any(it == ("o", "/") or it[0] in ("f", "pi") for it in ops)):
            # "+, -, *, ** on integers stay integers": integer powers whose exact value lies between 2**53 and 2**63 (no double
            # holds them), base and exponent at every pair of adjacent leaf positions; compared exactly (validation runs)
            n = len(lv.vars)
            for (b, e) in ((3, 34), (7, 19), (5, 25)):
                for pos in range(max(1, n - 1)):
                    vals = [1] * n
                    vals[pos] = b
                    if pos + 1 < n:
                        vals[pos + 1] = e
                    r = concrete_check(spec, spaced, vals, w)
                    if r == "skip":
                        continue
                    out["validated"] = out.get("validated", 0) + 1
                    if isinstance(r, dict):
                        r["what"] = "native run of an integer power beyond 2**53 differs from the exact reference: " + str(r.get("what") or "value")
                        out["result"] = "violation"
                        out["cex"] = r
                        break
                if out["result"] != "holds":
                    break
        if out["result"] == "violation":
            c = out["cex"]
            c.setdefault("expr", etext)
            c.setdefault("what", "value differs")
    return out


def _is_const(v):
    ts = [v.re] + ([v.im] if v.im is not None else [])
    return all(z3.is_rational_value(z3.simplify(t)) or z3.is_int_value(z3.simplify(t)) for t in ts)


def concrete_check(spec, spaced, vals, w=None):
    """replay on concrete values against the (stub-free semantics of the) real code: returns None if the
    property holds for these values, else a dict describing the mismatch"""
    w = w or _init()
    bb = w["bb"]
    lv = skel.Leaves(values=vals)
    text, etext, info = render(spec, lv, spaced)
    T.PyAlg.overflow = False
    T.PyAlg.fscale = 0.0
    try:
        ref, dom = reference(lv, etext, info, w["lang"], False)
    except (R.RefError, ArithmeticError, ValueError):
        return "skip"       # the exact value does not exist (division by zero, overflow, outside a function's domain)
    except Exception as e:  # noqa
        raise common.HarnessError("reference evaluation failed on %r: %r" % (etext, e))
    if not dom.ok or ref != ref or T.PyAlg.overflow:
        return "skip"      # outside the property's domain
    if isinstance(ref, (float, complex)) and not U.finite(ref):
        return "skip"
    import numpy as np
    stubs.reset_tables()
    try:
        with np.errstate(all="ignore"):
            got = bb.loads(text).operations[0]["args"][0]
    except Exception as e:  # noqa
        return {"text": text, "expr": etext, "observed": "%s: %s" % (type(e).__name__, e), "expected": repr(ref), "values": vals}
    finally:
        stubs.reset_tables()
    # rel. 1e-12 of the largest float intermediate (integer sub-results are exact; rounding errors of float operations are
    # relative to the operands, so cancellation against a larger intermediate is not a violation)
    # powers and elementary functions amplify the few-ulp differences between NumPy's and Python's implementations
    # (towers of complex powers are ill-conditioned): the native validation uses 1e-9 there, the symbolic claim is unaffected
    npow = sum(1 for it in spec[1] if isinstance(it, tuple) and (it == ("o", "**") or it[0] == "f"))
    rel = 1e-12 if npow == 0 else 1e-9
    ok = U.close(got, ref, rel=rel) or (R.kind_of(ref) != "int" and abs(complex(got) - complex(ref)) <= rel * T.PyAlg.fscale)
    if ok and R.kind_of(ref) == "int" and not isinstance(got, (int, np.integer)):
        ok = False
    if ok:
        return None
    return {"text": text, "expr": etext, "observed": "%r (%s)" % (got, type(got).__name__), "expected": "%r (%s)" % (ref, R.kind_of(ref)), "values": vals}


def _key(r):
    w = r["cex"]["what"]
    if w.startswith("raises"):
        return "exc:" + w[7:]
    return w.split(" (")[0] + ":" + U.shape_key(r["spec"])


REPLAY = '''#!/usr/bin/env python
# C03 replay: evaluates one concrete expression with the real blackbird.loads (no stubs) and with the
# reference semantics (precedence per the property); exit 1 if they disagree.
import sys; sys.path.insert(0, %(root)r)
from bbverif.checks import c03
sys.exit(c03.replay(%(spec)r, %(spaced)r, %(vals)r))
'''


def replay(spec, spaced, vals):
    from ..atnsmt import lang as langmod
    import blackbird
    w = {"bb": blackbird, "lang": langmod.Lang()}
    r = concrete_check(spec, spaced, vals, w)
    if r in (None, "skip"):
        print("property holds for these values" if r is None else "outside the domain")
        return 0
    print("script:\n" + r["text"])
    print("observed:", r["observed"])
    print("expected:", r["expected"])
    return 1


# ----------------------------------------------------------------------------- O2 literal languages
def o2_literals(rep, M):
    """automata inclusions: every INT/FLOAT/COMPLEX lexeme is accepted by python's int()/float()/complex()
    (languages written from the CPython reference: optional sign, digits with optional '_' separators, ...)"""
    from ..atnsmt import lang as langmod, nfa, g4 as g4mod
    lg = langmod.Lang()
    # constructor languages as g4-style regex ASTs (subset relevant here: ASCII digits, no underscores needed)
    D = ("plus", ("set", [(48, 57)], False))
    sign = ("opt", ("set", [(43, 43), (45, 45)], False))
    exp = ("opt", ("seq", [("set", [(101, 101), (69, 69)], False), sign, D]))
    fl = ("seq", [sign, ("alt", [("seq", [D, ("opt", ("seq", [("lit", "."), ("opt", D)]))]), ("seq", [("lit", "."), D])]), exp])
    unsigned_fl = ("seq", [("alt", [("seq", [D, ("opt", ("seq", [("lit", "."), ("opt", D)]))]), ("seq", [("lit", "."), D])]), exp])
    cx = ("alt", [("seq", [fl, ("set", [(106, 106), (74, 74)], False)]),
                  ("seq", [fl, ("set", [(43, 43), (45, 45)], False), unsigned_fl, ("set", [(106, 106), (74, 74)], False)])])
    targets = {"INT": ("int()", ("seq", [sign, D])), "FLOAT": ("float()", fl), "COMPLEX": ("complex()", cx)}
    cs = [z3.BitVec("c%d" % i, 21) for i in range(M)]
    sol = z3.Solver()
    for c in cs:
        sol.add(z3.ULE(c, nfa.MAXCP))
    atn_rules = {n: m for (n, t, m) in lg.lexer_A()}
    for tok, (cname, ast) in targets.items():
        ma = atn_rules[tok]
        mc = nfa.from_ast(ast, lexer_rules={}).eps_free()
        aa = nfa.unroll(ma, cs)
        ac = nfa.unroll(mc, cs)
        sol.push()
        sol.add(z3.Or([z3.And(a, z3.Not(b)) for a, b in zip(aa, ac)]))
        t0 = time.time()
        r = sol.check()
        rep.count(r, time.time() - t0)
        rep.evaluations += 1
        rep.distinct.add(("literal-language", tok))
        name = "O2 L(%s token of the shipped lexer) subset of L(%s), strings <= %d" % (tok, cname, M)
        if str(r) == "sat":
            mdl = sol.model()
            k = next(i for i, (a, b) in enumerate(zip(aa, ac)) if z3.is_true(mdl.eval(a, model_completion=True)) and not z3.is_true(mdl.eval(b, model_completion=True)))
            s = "".join(chr(mdl.eval(c, model_completion=True).as_long()) for c in cs[:k])
            sol.pop()
            # replay on the real constructor
            try:
                {"INT": int, "FLOAT": float, "COMPLEX": complex}[tok](s)
                rep.unconfirmed.append({"where": name, "string": s})
                rep.obligation(name, "holds", note="solver witness %r is accepted by the real constructor (constructor language model too narrow)" % s)
            except ValueError:
                rep.obligation(name, "violated", witness=s)
                rep.violation("O2:%s" % tok, "the lexer accepts %r as %s but %s rejects it" % (s, tok, cname),
                              "import sys\ntry:\n    %s(%r)\nexcept ValueError as e:\n    print('rejected:', e); sys.exit(1)\n" % (cname[:-2], s),
                              "o2_" + tok)
        else:
            sol.pop()
            rep.obligation(name, "holds" if str(r) == "unsat" else "inconclusive")


# ----------------------------------------------------------------------------- main
def main():
    t = common.tier()
    rep = common.Report(PID, "model_checking")
    rep.rule = ("one case = one expression skeleton (operator/bracket/unary shape x leaf kinds x spacing) executed symbolically "
                "through the real parser and evaluator, all leaf values at once; distinct = distinct (skeleton, spacing) pairs; "
                "non-trivial = at least one symbolic leaf")
    rep.bounds = {"operators": "<=3", "leaf kinds": "int/float/complex literals (all COMPLEX forms), pi, declared scalars, A[k] with symbolic k (2x3, 2x2 arrays)",
                  "functions": "15, applied to a leaf or a bracketed sum", "literal language strings": 16 if t == "quick" else 24}
    rep.assumptions = [
        "floats are reals: the claim is about the formula computed (operator, operand order, result kind), not rounding; replay uses rel. tol 1e-12",
        "** and the 15 functions are uninterpreted on both sides (x**-1 = 1/x, constant exponents 0..4 expanded): dispatch and operand order only",
        "domain: divisors != 0, real function arguments inside the real domains, int ** int only with exponent >= 0 (the property's 'integers stay integers' and 'real value' clauses conflict for negative exponents: excluded), indices in range",
        "stubs: int/float/complex/bool/str names, np shim (sum, prod, power, abs, 15 ufuncs, array), PYTHON_TYPES/NUMPY_TYPES wrapped; result types and exceptions are taken from real NumPy on typed exemplars",
        "reference: Pratt evaluator over the real token stream (bbverif/ref/expr.py); lexing itself is C14's claim",
    ]
    specs = gen_specs(t, common.seed())
    jobs = [(s, True) for s in specs]
    # the unspaced rendering exercises the lexer's token merging (e.g. 1+2j is one COMPLEX token)
    jobs += [(s, False) for s in specs if len(s[1]) <= (5 if t == "quick" else 9)]
    U.shuffle(jobs, common.seed())
    results = U.run_parallel(run_spec, jobs)
    U.collect(rep, results, key_fn=_key, replay_fn=lambda r: REPLAY % {
        "root": common.ROOT, "spec": r["spec"], "spaced": r.get("spaced", True), "vals": r["cex"]["values"]},
        sample_fn=lambda r: {"script": r["text"], "paths": r["paths"]})
    try:
        o2_literals(rep, 16 if t == "quick" else 24)
    except Exception as e:  # noqa
        rep.obligation("O2 literal languages", "inconclusive", why=repr(e))
    return rep.finish()


if __name__ == "__main__":
    sys.exit(main())
