"""C16 - the dependency graph is an order-respecting DAG of the operations.

Programs of n operations are assembled through the API with *all mode and register numbers symbolic*.  The real
to_DiGraph hashes them into sets and dict keys; constant-hash proxies turn every lookup into equality forks, so the
engine enumerates exactly the feasible equality patterns by solver feasibility.  On each path the returned networkx
graph is concrete; z3 decides whether reachability can differ from the reference relation (transitive closure of
'an earlier operation shares a mode or measured register') for any wire assignment consistent with the path.
"""
import itertools
import sys

import z3

from .. import common
from ..pysym import engine, proxies as P, stubs, terms as T
from . import _script, _util as U

PID = "C16"
MOD = "bbverif.checks.c16"

# op shape: (number of modes, transform spec) ; transform spec None | ('pos', k) | ('kw', k) | ('noargs',)
SHAPES = [(1, None), (2, None), (1, ("noargs",)), (1, ("pos", 1)), (1, ("kw", 1)), (2, ("pos", 1)), (1, ("pos", 2)), (1, ("both", 1)), (1, ("kw", 2))]


def nwires(shape):
    m, tr = shape
    if tr is None or tr[0] == "noargs":
        return m
    if tr[0] == "both":
        return m + 2 * tr[1]
    return m + tr[1]


def gen_specs(tier, seed):
    maxw = 6 if tier == "quick" else 8
    maxn = 3 if tier == "quick" else 5
    specs = []
    for n in range(0, maxn + 1):     # (n = 0: the empty program has the empty graph)
        for combo in itertools.product(range(len(SHAPES)), repeat=n):
            if sum(nwires(SHAPES[c]) for c in combo) <= maxw:
                specs.append(combo)
    if tier == "quick":
        # keep it within ~1 min: all programs with <= 5 wires, every 3rd of the 6-wire ones
        a = [s for s in specs if sum(nwires(SHAPES[c]) for c in s) <= 5]
        b = [s for s in specs if sum(nwires(SHAPES[c]) for c in s) == 6][::3]
        specs = a + b
    else:
        a = [s for s in specs if sum(nwires(SHAPES[c]) for c in s) <= 6]
        b = [s for s in specs if sum(nwires(SHAPES[c]) for c in s) == 7][::24]
        c = [s for s in specs if sum(nwires(SHAPES[c]) for c in s) == 8][::400]
        specs = a + b + c
    # programs assembled by hand may keep their mode sequences (marker -1) or their argument sequences (marker -2) as tuples:
    # same wires, same graph
    multi = [x for x in specs if len(x) >= 2]
    specs += [s + (-1,) for s in multi[::(7 if tier == "quick" else 3)]] + [s + (-2,) for s in multi[1::(7 if tier == "quick" else 3)]]
    return specs


def build(spec, wire):
    """assemble the program; wire(i) gives the i-th wire value (proxy or int).  returns (program, [wires per op])"""
    import sympy
    from blackbird import BlackbirdProgram
    from blackbird.listener import RegRefTransform
    prog = BlackbirdProgram(name="c16")
    k = 0
    per_op = []
    as_tuple = -1 in spec
    for idx, c in enumerate([x for x in spec if x >= 0]):
        m, tr = SHAPES[c]
        modes = []
        for _ in range(m):
            modes.append(wire(k))
            k += 1
        wires = list(modes)
        op = {"op": "G%d" % idx, "modes": tuple(modes) if as_tuple else modes}
        if tr is not None:
            op["args"] = []
            op["kwargs"] = {}
            if tr[0] != "noargs":
                def transform(nreg):
                    nonlocal k
                    syms = [sympy.Symbol("q%d" % (100 + j)) for j in range(nreg)]
                    t = RegRefTransform(sum(syms[1:], syms[0]) * 2)
                    regs = []
                    for _ in range(nreg):
                        regs.append(wire(k))
                        k += 1
                    t.regrefs = regs
                    wires.extend(regs)
                    return t
                if tr[0] in ("pos", "both"):
                    op["args"] = [0.5, transform(tr[1])]
                if tr[0] in ("kw", "both"):
                    op["kwargs"] = {"phi": transform(tr[1]), "x": 1}
        if tr is not None:
            # strings are plain values whatever they spell: no dependency comes from them
            if idx % 2 == 0:
                op["kwargs"] = dict(op["kwargs"], tag="q0")
            else:
                op["args"] = list(op["args"]) + ["2*q1+q2"]
        if -2 in spec and "args" in op:
            op["args"] = tuple(op["args"])
        prog._operations.append(op)
        per_op.append(wires)
    return prog, per_op


def ref_reach(per_op, eq, AND, OR, FALSE):
    """reference: j is reachable from i iff a chain i = o0 < o1 < ... < om = j exists whose consecutive members share a wire"""
    n = len(per_op)

    def share(i, j):
        return OR([eq(a, b) for a in per_op[i] for b in per_op[j]])

    R = {}
    for j in range(n):
        for i in range(j - 1, -1, -1):
            alts = [share(i, j)]
            for k in range(i + 1, j):
                alts.append(AND([R[(i, k)], share(k, j)]))
            R[(i, j)] = OR(alts)
    return R


def check_graph(G, prog, n):
    """structural assertions that do not depend on wire values"""
    import networkx as nx
    bad = []
    if sorted(G.nodes()) != list(range(n)):
        bad.append("node set %r, expected one node per operation 0..%d" % (sorted(G.nodes()), n - 1))
        return bad
    for i in range(n):
        d = G.nodes[i]
        op = prog._operations[i]
        if d.get("name") != op["op"] or list(d.get("modes", ())) != [m for m in op["modes"]] and not all(a is b for a, b in zip(d.get("modes", ()), op["modes"])):
            bad.append("node %d attributes do not describe operation %d" % (i, i))
        if d.get("args") is not op.get("args", d.get("args")) and d.get("args") != op.get("args", []):
            bad.append("node %d args differ" % i)
        if "kwargs" not in d or "args" not in d:
            bad.append("node %d lacks args/kwargs" % i)
    for (a, b) in G.edges():
        if not a < b:
            bad.append("edge %d->%d does not point from an earlier to a later operation" % (a, b))
    if not nx.is_directed_acyclic_graph(G):
        bad.append("graph has a cycle")
    return bad


def run_spec(spec):
    _script.winit()
    from blackbird.utils import to_DiGraph
    import networkx as nx
    out = {"spec": spec, "result": "holds", "paths": 0, "stats": None, "why": None, "cex": None, "funcs": [], "reach": 0}
    shape = [c for c in spec if c >= 0]
    nw = sum(nwires(SHAPES[c]) for c in shape)
    ws = [z3.Int("w%d" % i) for i in range(nw)]
    E = engine.Engine(max_paths=20000)
    E.base = [w >= 0 for w in ws]
    n = len(shape)
    holder = {}

    def run():
        prog, per_op = build(spec, lambda i: P.SNum(T.V("int", ws[i]), int))
        holder["prog"] = prog
        G = to_DiGraph(prog)
        return (G, prog)

    with U.coverage(out["funcs"]):
        try:
            paths = E.explore(run)
        except engine.PathLimit as e:
            out.update(result="inconclusive", why=str(e), stats=E.stats)
            return out
    out["paths"] = len(paths)
    out["text"] = "program shape %r (%d symbolic wires)%s" % ([SHAPES[c] for c in shape], nw, ", modes kept as tuples" if -1 in spec else (", arguments kept as tuples" if -2 in spec else ""))
    _, per_op_terms = build(spec, lambda i: ws[i])
    R = ref_reach(per_op_terms, lambda a, b: a == b, z3.And, lambda xs: z3.Or(xs) if xs else z3.BoolVal(False), z3.BoolVal(False))
    for pth in paths:
        if pth.kind == "abort":
            out.update(result="inconclusive", why="abort: %s" % pth.value)
            continue
        out["reach"] += 1
        cands = []
        if pth.kind == "exc":
            cands.append(("raises %s: %s" % (type(pth.value).__name__, pth.value), z3.BoolVal(True)))
        else:
            G, prog = pth.value
            for b in check_graph(G, prog, n):
                cands.append((b, z3.BoolVal(True)))
            if not cands:
                for (i, j), r in R.items():
                    got = nx.has_path(G, i, j)
                    cond = z3.Not(r) if got else r
                    cands.append(("operation %d %s reachable from %d in the graph, reference says otherwise" % (j, "is" if got else "is not", i), cond))
                for j in range(n):
                    for i in range(j + 1, n):
                        if nx.has_path(G, i, j):
                            cands.append(("operation %d reachable from the later operation %d" % (j, i), z3.BoolVal(True)))
        for desc, cond in cands:
            r, mdl = E.query(pth, cond)
            if r == "unsat":
                continue
            if r != "sat":
                out.update(result="inconclusive", why="solver %s" % r)
                continue
            vals = [mdl.eval(w, model_completion=True).as_long() for w in ws]
            rr = concrete_check(spec, vals)
            if isinstance(rr, dict):
                rr["symbolic_what"] = desc
                out.update(result="violation", cex=rr, stats=E.stats)
                return out
            out.setdefault("unconfirmed", []).append({"what": desc, "text": out["text"], "wires": vals})
    out["stats"] = E.stats
    if out["result"] == "holds" and paths:
        # encoder validation: one model of the first path, natively
        r, mdl = E.query(paths[0], z3.BoolVal(True))
        if r == "sat":
            vals = [mdl.eval(w, model_completion=True).as_long() for w in ws]
            rr = concrete_check(spec, vals)
            out["validated"] = 1
            if isinstance(rr, dict):
                rr["symbolic_what"] = "native run differs (encoder gap)"
                out.update(result="violation", cex=rr)
    return out


def concrete_check(spec, vals):
    from blackbird.utils import to_DiGraph
    import networkx as nx
    prog, per_op = build(spec, lambda i: int(vals[i]))
    n = len([c for c in spec if c >= 0])
    desc = "operations %r" % [(o["op"], o["modes"], [t.regrefs for t in list(o.get("args", [])) + list(o.get("kwargs", {}).values()) if hasattr(t, "regrefs")]) for o in prog._operations]
    try:
        G = to_DiGraph(prog)
    except Exception as e:  # noqa
        return {"text": desc, "values": vals, "what": "raises %s" % type(e).__name__, "observed": repr(e), "expected": "a graph"}
    bad = check_graph(G, prog, n)
    R = ref_reach(per_op, lambda a, b: a == b, all, any, False)
    for (i, j), r in R.items():
        if nx.has_path(G, i, j) != bool(r):
            bad.append("operation %d %s reachable from %d, reference: %s" % (j, "is" if nx.has_path(G, i, j) else "is not", i, bool(r)))
    for j in range(n):
        for i in range(j + 1, n):
            if nx.has_path(G, i, j):
                bad.append("operation %d reachable from the later operation %d" % (j, i))
    if not bad:
        return None
    return {"text": desc, "values": vals, "what": bad[0], "observed": "; ".join(bad[:4]) + " ; edges %r" % sorted(G.edges()), "expected": "reachability = chains of successive sharing"}


# ----------------------------------------------------------------------------- end to end from scripts (concrete structure)
SCRIPTS = [
    "MeasureX | 12\nDgate(0.5) | 2\nSgate(q12) | 0\n",
    "MeasureX | 0\nDgate(q0) | 1\nVac | 0\n",
    "MeasureX | 10\nMeasureP | 2\nDgate(q2 - q10, k=q10*2) | 1\nVac | 10\nVac | 2\n",
    "MeasureX | 0\nDgate(q0, 2*q0) | 1\nMeasureHomodyne(q0, select=q0/2) | 1\nVac | 0\n",
    "Vac | 3\nBSgate(0.5) | [3, 4]\nMeasureX | 4\nRgate(phi=q4) | 5\nVac | [5, 3]\n",
    "MeasureX | 103\nMeasureX | 7\nZgate(q7*q103) | 0\nZgate(q103) | 7\nXgate(q7) | 103\n",
    "for int i in 0:3\n    MeasureX | i\nDgate(q0+q1+q2) | 3\nVac | 1\n",
]


def script_case(i):
    """load the script natively, build the graph, compare reachability with the relation read off the script text by the
    reference interpreter (modes and the registers written in each operation's arguments)"""
    import blackbird
    import blackbird.auxiliary as aux
    import networkx as nx
    from blackbird.utils import to_DiGraph
    from ..atnsmt import lang as langmod
    from ..ref import interp as RI
    from ..pysym import skel
    text = "name c16\nversion 1.0\n\n" + SCRIPTS[i]
    lg = langmod.Lang()
    lv = skel.Leaves(values=[])
    rp = RI.Interp(lg.real_tokens_pos(text), T.PyAlg, lv.leaf, False, params=None).run()
    per_op = []
    for o in rp.operations:
        wires = list(o["modes"])
        for a in list(o["args"]) + list(o["kwargs"].values()):
            if isinstance(a, RI.Sym):
                wires += list(a.regs)
        per_op.append(wires)
    aux._VAR.clear()
    aux._PARAMS.clear()
    prog = blackbird.loads(text)
    G = to_DiGraph(prog)
    n = len(per_op)
    bad = check_graph(G, prog, n)
    R = ref_reach(per_op, lambda a, b: a == b, all, any, False)
    for (a, b), r in R.items():
        if nx.has_path(G, a, b) != bool(r):
            bad.append("operation %d %s reachable from %d, the script says: %s" % (b, "is" if nx.has_path(G, a, b) else "is not", a, bool(r)))
    if not bad:
        return None
    return {"text": text, "values": [i], "what": bad[0], "observed": "; ".join(bad[:4]) + " ; edges %r" % sorted(G.edges()), "expected": "reachability = chains of successive sharing of modes / written registers"}


def run_script(i):
    out = {"spec": ("script", i), "result": "holds", "paths": 1, "stats": None, "funcs": [], "reach": 1, "validated": 1, "text": "script:\n" + SCRIPTS[i], "name": "script %d" % i}
    r = script_case(i)
    if r:
        r["symbolic_what"] = r["what"]
        out.update(result="violation", cex=r)
    return out


REPLAY_SCRIPT = '''#!/usr/bin/env python
import sys; sys.path.insert(0, %(root)r)
from bbverif.checks import c16
r = c16.script_case(%(i)r)
if r is None:
    print("property holds"); sys.exit(0)
print(r["text"]); print("observed:", r["observed"]); print("expected:", r["expected"]); sys.exit(1)
'''


REPLAY = '''#!/usr/bin/env python
# C16 replay: builds the concrete program, calls the real to_DiGraph, compares reachability with the reference relation.
import sys; sys.path.insert(0, %(root)r)
from bbverif.checks import c16
r = c16.concrete_check(%(spec)r, %(vals)r)
if r is None:
    print("property holds for these wires"); sys.exit(0)
print(r["text"]); print("observed:", r["observed"]); print("expected:", r["expected"]); sys.exit(1)
'''


def main():
    t = common.tier()
    rep = common.Report(PID, "model_checking")
    rep.rule = ("one case = one program shape (operations with 1-2 modes, optional register transform positional/keyword/both, with or without args key); "
                "all mode and register numbers are solver variables; paths = feasible equality patterns met by the real set/dict operations")
    rep.bounds = {"operations": "<=3 (quick) / <=5 (thorough)", "symbolic wires": "<=6 (quick, 6-wire shapes sampled 1/3) / <=8 (thorough, 7/8-wire shapes sampled)",
                  "mode sequences": "lists; every 7th (quick) / 3rd (thorough) multi-operation shape also with tuples"}
    rep.assumptions = [
        "proxies have a constant hash, so every set/dict operation on wires compares by equality (over-approximates every hash order)",
        "networkx is trusted (DiGraph, has_path, is_directed_acyclic_graph)",
        "programs are assembled through the API (operation dicts), register lists of transforms are set to symbolic values",
        "a few loaded scripts (multi-digit registers, one register in several arguments, loops) are concrete end-to-end cases: wires are read off the script text by the reference interpreter",
    ]
    specs = gen_specs(t, common.seed())
    results = U.run_parallel(run_spec, specs) + [run_script(i) for i in range(len(SCRIPTS))]
    U.collect(rep, results, key_fn=_script.default_key,
              replay_fn=lambda r: (REPLAY_SCRIPT % {"root": common.ROOT, "i": r["spec"][1]}) if r["spec"][0] == "script" else
              REPLAY % {"root": common.ROOT, "spec": r["spec"], "vals": r["cex"]["values"]},
              sample_fn=lambda r: {"program": r["text"], "paths": r["paths"]})
    return rep.finish()


if __name__ == "__main__":
    sys.exit(main())
