"""'Denotes the same program': value-level equivalence of two programs whose values may be proxies
(used for dump -> load round trips).  Numbers are compared by kind (int/float/complex) and value, not by the
concrete Python/NumPy type; symbolic arguments by evaluation at fresh symbol values."""
import numpy as np
import sympy
import z3

from ..pysym import terms as T, proxies as P


class Eq:
    def __init__(self, symbolic, kinds=True):
        self.symbolic = symbolic
        self.out = []
        self.kinds = kinds
        self.symvals = {}

    def miss(self, where, what, cond=True):
        self.out.append(("%s: %s" % (where, what), cond))

    def kind(self, x):
        t = P.tag_of(x)
        k = P.KIND_OF.get(t)
        return k

    def number(self, a, b, where, loose=False):
        ka, kb = self.kind(a), self.kind(b)
        if ka is None or kb is None:
            return self.miss(where, "%s vs %s" % (short(a), short(b)))
        if ka == "bool" or kb == "bool":
            if ka != kb:
                return self.miss(where, "%s vs %s" % (short(a), short(b)))
        elif self.kinds and not loose and ka != kb:
            return self.miss(where, "kind %s became %s" % (ka, kb))
        va, vb = P.as_v(a), P.as_v(b)
        if self.symbolic:
            ne = z3.simplify(z3.Not(T.eq(va, vb)))
            if not z3.is_false(ne):
                self.miss(where, "value differs", ne)
        else:
            if not exact_equal(a, b):
                self.miss(where, "value %r became %r" % (a, b))

    def symval(self, name):
        if name not in self.symvals:
            if self.symbolic:
                self.symvals[name] = P.SNum(T.V("float", z3.Real("sym_" + name)), float)
            else:
                self.symvals[name] = 0.37 + 0.61 * len(self.symvals)
        return self.symvals[name]

    def sym_eval(self, e):
        if type(e).__name__ == "RegRefTransform":
            return e.func(*[self.symval("q%d" % n) for n in e.regrefs]), sorted(e.regrefs)
        syms = sorted(e.free_symbols, key=str)
        f = sympy.lambdify(syms, e)
        return f(*[self.symval(str(s)) for s in syms]), sorted(str(s) for s in syms)

    def value(self, a, b, where):
        sa = isinstance(a, sympy.Basic) or type(a).__name__ == "RegRefTransform"
        sb = isinstance(b, sympy.Basic) or type(b).__name__ == "RegRefTransform"
        if sa or sb:
            if not (sa and sb):
                return self.miss(where, "symbolic argument %s became %s" % (short(a), short(b)))
            if (type(a).__name__ == "RegRefTransform") != (type(b).__name__ == "RegRefTransform"):
                return self.miss(where, "%s became %s" % (short(a), short(b)))
            try:
                (va, na), (vb, nb) = self.sym_eval(a), self.sym_eval(b)
            except P.Abort:
                raise
            except Exception as e:  # noqa
                return self.miss(where, "cannot evaluate symbolic argument: %s" % type(e).__name__)
            if na != nb:
                return self.miss(where, "symbols %r became %r" % (na, nb))
            if self.symbolic:
                return self.number(va, vb, where + " (value of the expression)", loose=True)
            if not close(va, vb):
                self.miss(where, "expression value %r became %r" % (va, vb))
            return
        if isinstance(a, (str, np.str_)) or isinstance(b, (str, np.str_)):
            if not (isinstance(a, (str, np.str_)) and isinstance(b, (str, np.str_)) and str(a) == str(b)):
                self.miss(where, "%s became %s" % (short(a), short(b)))
            return
        if isinstance(a, (list, tuple)) or isinstance(b, (list, tuple)):
            if not (isinstance(a, (list, tuple)) and isinstance(b, (list, tuple)) and len(a) == len(b)):
                return self.miss(where, "%s became %s" % (short(a), short(b)))
            for k, (x, y) in enumerate(zip(a, b)):
                self.value(x, y, "%s[%d]" % (where, k))
            return
        if isinstance(a, np.ndarray) or isinstance(b, np.ndarray):
            if not (isinstance(a, np.ndarray) and isinstance(b, np.ndarray)):
                return self.miss(where, "%s became %s" % (short(a), short(b)))
            if tuple(a.shape) != tuple(b.shape):
                return self.miss(where, "array shape %r became %r" % (tuple(a.shape), tuple(b.shape)))
            if a.dtype.kind != b.dtype.kind and not (a.dtype.kind in "iu" and b.dtype.kind in "iu"):
                self.miss(where, "array element type %s became %s" % (a.dtype, b.dtype))
            for idx in np.ndindex(a.shape):
                self.value(np.ndarray.__getitem__(a, idx), np.ndarray.__getitem__(b, idx), "%s%r" % (where, list(idx)))
            return
        if a is None or b is None:
            if a is not b:
                self.miss(where, "%s became %s" % (short(a), short(b)))
            return
        self.number(a, b, where)

    def options(self, a, b, where):
        if list(a.keys()) != list(b.keys()):
            return self.miss(where, "keys %r became %r" % (list(a.keys()), list(b.keys())))
        for k in a:
            self.value(a[k], b[k], "%s[%s]" % (where, k))

    def program(self, p, q, variables=False):
        if p.name != q.name:
            self.miss("name", "%r became %r" % (p.name, q.name))
        if str(p.version) != str(q.version):
            self.miss("version", "%r became %r" % (p.version, q.version))
        for label, a, b in (("target", p.target, q.target), ("type", p.programtype, q.programtype)):
            if a["name"] != b["name"]:
                self.miss(label, "%r became %r" % (a["name"], b["name"]))
            self.options(a["options"], b["options"], label + " options")
        if set(p.parameters) != set(q.parameters):
            # a parameter that cancels identically out of every argument (`{a}+({b}-{a})`) is not part of the serialised
            # program (like a parameter that occurs only in an unused array variable): outside the claim
            lost = set(p.parameters) - set(q.parameters)
            if set(q.parameters) - set(p.parameters) or lost & _occurring(p):
                self.miss("parameters", "%r became %r" % (sorted(p.parameters), sorted(q.parameters)))
        if len(p.operations) != len(q.operations):
            return self.miss("operations", "%d operations became %d" % (len(p.operations), len(q.operations)))
        for k, (a, b) in enumerate(zip(p.operations, q.operations)):
            w = "op %d" % k
            if a["op"] != b["op"]:
                self.miss(w, "gate %r became %r" % (a["op"], b["op"]))
                continue
            self.value(list(a["modes"]), list(b["modes"]), w + " modes")
            self.value(list(a.get("args", [])), list(b.get("args", [])), w + " args")
            self.options(a.get("kwargs", {}), b.get("kwargs", {}), w + " kwargs")
        if variables:
            for k in variables:
                if k not in q.variables:
                    self.miss("variable " + k, "lost")
                else:
                    self.value(p.variables[k], q.variables[k], "variable " + k)


def _occurring(p):
    """names of the symbols that actually occur in the operations' arguments"""
    out = set()

    def walk(x):
        if isinstance(x, sympy.Basic):
            out.update(str(s) for s in x.free_symbols)
        elif type(x).__name__ == "RegRefTransform":
            pass
        elif isinstance(x, (list, tuple)):
            for e in x:
                walk(e)
        elif isinstance(x, dict):
            for e in x.values():
                walk(e)
        elif isinstance(x, np.ndarray) and x.dtype == object:
            for e in np.ndarray.flatten(x):
                walk(e)

    for o in p.operations:
        walk(o.get("args", []))
        walk(o.get("kwargs", {}))
    return out


def exact_equal(a, b):
    """exact equality of two concrete numbers, sign of zero included"""
    import math
    ca, cb = complex(a), complex(b)
    if ca != cb:
        return False
    return (math.copysign(1, ca.real) == math.copysign(1, cb.real)) and (math.copysign(1, ca.imag) == math.copysign(1, cb.imag) or not (isinstance(a, (complex, np.complexfloating))))


def close(a, b, rel=1e-9):
    try:
        a, b = complex(a), complex(b)
    except Exception:  # noqa
        return a == b
    return abs(a - b) <= rel * max(abs(a), abs(b)) + 1e-300


def short(x):
    if P.is_proxy(x):
        return "%s (symbolic)" % P.tag_of(x).__name__
    if isinstance(x, (list, tuple)):
        return "[%s]" % ", ".join(short(e) for e in x)
    if isinstance(x, np.ndarray) and x.dtype == object:
        return "array%r" % (x.shape,)
    s = "%s %r" % (type(x).__name__, x)
    return s[:100]
