"""C05 - variables have their declared type; arrays keep written layout and shape.

Scalars: declared type x initialiser kind.  Arrays: rows x columns <= 3x3 including ragged rows, with/without a
declared shape (symbolic: the two shape integers are solver variables, so acceptance and rejection are decided for
every declared shape at once), with bare template parameters among the elements, A[k] with symbolic k.
"""
import itertools
import random
import sys

import z3

from .. import common
from . import _script, _util as U

PID = "C05"
MOD = "bbverif.checks.c05"

SCALARS = [
    ("int", "INT"), ("int", "intexpr"), ("int", "var"),
    ("float", "FLOAT"), ("float", "INT"), ("float", "floatexpr"), ("float", "var"), ("float", "pi"), ("float", "func"),
    ("complex", "COMPLEX"), ("complex", "FLOAT"), ("complex", "INT"), ("complex", "cexpr"), ("complex", "var"),
    ("bool", "True"), ("bool", "False"), ("str", "text"), ("str", "empty"),
]


def elem(lv, dtype, pos=0, narrow=False):
    """literal for an element; narrow: every other literal is written in a narrower type than declared
    (an INT in a float array, a FLOAT / INT in a complex array)"""
    if dtype == "int":
        if narrow and pos % 2 == 1:
            # a float-valued entry in an int array (true division; converted to the element type like a scalar initialiser)
            return "%s/%s" % (lv.int(), lv.int()) if pos % 4 == 1 else lv.float()
        return lv.int()
    if dtype == "float":
        return lv.int() if (narrow and pos % 2 == 0) else lv.float()
    if narrow and pos % 3 == 0:
        return lv.int()
    if narrow and pos % 3 == 1:
        return lv.float()
    return lv.complex("a+bj")


def gen(spec, lv):
    kind = spec[0]
    L = ["name c05", "version 1.0", ""]
    pre = []
    if kind == "redeclare":
        # declare, index, declare again (other contents / other type / other size), index again
        _, dt1, dt2, n2 = spec
        L.append("%s array A =" % dt1)
        L.append("    " + ", ".join(elem(lv, dt1) for _ in range(2)))
        L.append("Dgate(A[0], A[1]) | 0")
        L.append("%s x = %s" % (dt1, elem(lv, dt1)))
        L.append("%s array A =" % dt2)
        L.append("    " + ", ".join(elem(lv, dt2) for _ in range(n2)))
        L.append("Sgate(A[%d], A[0], x) | 1" % (n2 - 1))
        L.append("%s x = A[1]" % dt2)
        L.append("Rgate(x) | 2")
        return {"text": "\n".join(L) + "\n", "pre": pre}
    if kind == "scalar":
        _, vt, init = spec
        if init == "var":
            L.append("%s base = %s" % (vt, elem(lv, vt)))
            rhs = "base"
        elif init in ("INT", "FLOAT", "COMPLEX"):
            rhs = {"INT": lv.int, "FLOAT": lv.float, "COMPLEX": lambda: lv.complex("a-bj")}[init]()
        elif init == "intexpr":
            rhs = "%s*%s+%s**2-%s" % (lv.int(), lv.int(), lv.int(), lv.int())
        elif init == "floatexpr":
            rhs = "-%s/%s+%s" % (lv.float(), lv.float(), lv.int())
        elif init == "cexpr":
            rhs = "%s*%s-%s" % (lv.complex("a+bj"), lv.float(), lv.complex("bj"))
        elif init == "pi":
            rhs = "2*pi"
        elif init == "func":
            rhs = "sqrt(%s)" % lv.float()
        elif init in ("True", "False"):
            rhs = init
        elif init == "text":
            rhs = '"hello world"'
        else:
            rhs = '""'
        L.append("%s v = %s" % (vt, rhs))
        L.append("Gate(v, key=v) | 0")
        return {"text": "\n".join(L) + "\n", "pre": pre}
    # arrays
    _, dtype, rowlens, shape_mode, params, use = spec[:6]
    narrow = len(spec) > 6 and spec[6] == "narrow"
    r = len(rowlens)
    hdr = "%s array A" % dtype
    if shape_mode == "sym":
        hdr += "[%s, %s]" % (lv.int(), lv.int())
    elif shape_mode == "exact":
        hdr += "[%d, %d]" % (r, rowlens[0])
    elif shape_mode == "wrong":
        hdr += "[%d, %d]" % (rowlens[0], r) if rowlens[0] != r else "[%d, %d]" % (r, rowlens[0] + 1)
    L.append(hdr + " =")
    pos = 0
    for rl in rowlens:
        row = []
        for c in range(rl):
            if pos in params:
                row.append("{par%s}" % "abc"[params.index(pos)])
            else:
                row.append(elem(lv, dtype, pos, narrow))
            pos += 1
        L.append("    " + ", ".join(row))
    if use == "idx":
        L.append("Dgate(A[%s]) | 0" % lv.int())
    elif use == "arg":
        L.append("Gate(A) | 0")
    else:
        L.append("Vac | 0")
    return {"text": "\n".join(L) + "\n", "pre": pre}


# integers that no int64 holds (and their neighbours inside the range): an int array / int scalar must hold the written value exactly
# or the script must be refused - never a wrapped or rounded value.  Outside the number model (mathematical integers), so these are
# native runs with their own oracle.
SPECIAL = ("edgeint",)
EDGE_INTS = [2 ** 63 - 1, 2 ** 63, 2 ** 63 + 1, 2 ** 64 - 1, 2 ** 64, 2 ** 64 + 5, 10 ** 19, 10 ** 20, 3 * 10 ** 18 + 1]


def special_text(spec):
    _, how, v, pos = spec
    if how == "scalar":
        return "name c05\nversion 1.0\n\nint n = %d\nGate(n) | 0\n" % v
    if how == "negscalar":
        return "name c05\nversion 1.0\n\nint n = -%d\nGate(n) | 0\n" % v
    row = ["1", "2", "3"]
    row[pos] = ("-%d" % v) if how == "negarray" else str(v)
    return "name c05\nversion 1.0\n\nint array A =\n    %s\n    4, 5, 6\nGate(A[%d], A) | 0\n" % (", ".join(row), pos)


def special_check(spec, vals, w):
    import warnings
    import numpy as np
    bb = w["bb"]
    text = special_text(spec)
    _, how, v, pos = spec
    want = -v if how.startswith("neg") else v
    try:
        with warnings.catch_warnings():
            warnings.simplefilter("ignore")
            with np.errstate(all="ignore"):
                p = bb.loads(text)
    except Exception:  # noqa  (a value the element type cannot hold may be refused)
        return None
    seen = []
    if how in ("scalar", "negscalar"):
        seen = [("variable n", p.variables.get("n")), ("argument", p.operations[0]["args"][0])]
    else:
        A = p.variables.get("A")
        seen = [("A[0, %d]" % pos, A[0, pos]), ("argument A[%d]" % pos, p.operations[0]["args"][0]), ("argument A, element [0, %d]" % pos, p.operations[0]["args"][1][0, pos])]
        if [int(x) for x in np.delete(np.asarray(A).flatten(), pos)] != [x for i, x in enumerate([1, 2, 3, 4, 5, 6]) if i != pos]:
            return {"text": text, "what": "the other elements of the array changed", "observed": repr(A), "expected": "1..6 around the large entry"}
    for label, x in seen:
        try:
            ok = isinstance(x, (int, np.integer)) and not isinstance(x, (bool, np.bool_)) and int(x) == want
        except Exception:  # noqa
            ok = False
        if not ok:
            return {"text": text, "what": "an integer beyond / at the edge of the 64-bit range is neither kept exactly nor refused (%s)" % label,
                    "observed": "%s = %r (%s)" % (label, x, type(x).__name__), "expected": "%d exactly, or an exception" % want}
    return None


def gen_specs(tier, seed):
    specs = [("scalar", vt, init) for (vt, init) in SCALARS]
    for v in EDGE_INTS:
        specs += [("edgeint", "scalar", v, 0), ("edgeint", "array", v, 0), ("edgeint", "array", v, 2), ("edgeint", "negarray", v, 1), ("edgeint", "negscalar", v, 0)]
    shapes = []
    for r in (1, 2, 3):
        for c in (1, 2, 3):
            shapes.append((c,) * r)
    shapes += [(12,), (1,) * 11, (10,) * 2]      # dimensions of two digits
    ragged = [(1, 2), (2, 1), (3, 1), (1, 3), (2, 2, 1), (1, 2, 3), (3, 2, 1), (2, 1, 1), (1, 1, 2), (3, 3, 2), (2, 3, 3), (1, 3, 2)]
    for dtype in ("int", "float", "complex"):
        for rl in shapes + ragged:
            n = sum(rl)
            for sm in ("none", "sym", "exact", "wrong"):
                if sm in ("exact", "wrong") and len(set(rl)) > 1:
                    continue
                uses = ["none", "idx", "arg"] if sm == "none" else ["none"]
                if n > 9:
                    uses = [u for u in uses if u != "idx"]      # (the index stub forks over at most 9 positions)
                for use in uses:
                    specs.append(("array", dtype, rl, sm, (), use))
            # bare parameters among the elements
            plist = [(0,), (n - 1,)] + ([(0, n - 1), (1, 2)] if n >= 3 else []) + ([(0, 2)] if n >= 3 else []) + ([(1, 3), (2, 3), (0, 1, 2)] if n >= 4 else [])
            if tier == "thorough":
                plist = [p for k in (1, 2, 3) for p in itertools.combinations(range(n), k)]
            for params in plist:
                if all(p < n for p in params) and (dtype != "int" or tier == "thorough" or len(params) <= 2):
                    specs.append(("array", dtype, rl, "none", tuple(params), "none"))
                    if len(set(rl)) == 1 and n >= 2 and (tier == "thorough" or params in plist[:3]):
                        # parameters among the elements x a declared shape that fits / is transposed (same number of elements,
                        # other layout: refused, not rearranged) / is symbolic
                        specs.append(("array", dtype, rl, "exact", tuple(params), "none"))
                        specs.append(("array", dtype, rl, "wrong", tuple(params), "arg"))
                        if tier != "thorough":
                            specs.append(("array", dtype, rl, "sym", tuple(params), "none"))
                    if len(set(rl)) == 1 and tier == "thorough" and not (n == 1 and len(params) == 1):
                        # (a body of one bare parameter is a whole-array parameter: its shape must be concrete)
                        specs.append(("array", dtype, rl, "sym", tuple(params), "none"))
    for dt1, dt2, n2 in (("float", "float", 2), ("int", "float", 3), ("float", "complex", 2), ("int", "int", 4)):
        specs.append(("redeclare", dt1, dt2, n2))
    # literals written narrower than the declared element type (with and without parameters among the elements)
    extra = []
    for sp in specs:
        if sp[0] == "array" and len(sp) == 6 and sp[1] in ("float", "complex") and len(set(sp[2])) == 1 and sp[3] in ("none", "exact") and sum(sp[2]) >= 2:
            extra.append(sp + ("narrow",))
        # int arrays with float-valued entries among integer literals (every element is converted on its own)
        if sp[0] == "array" and len(sp) == 6 and sp[1] == "int" and len(set(sp[2])) == 1 and sp[3] in ("none", "exact") and 2 <= sum(sp[2]) <= 6 and len(sp[4]) <= 1:
            extra.append(sp + ("narrow",))
    return specs + extra


def main():
    t = common.tier()
    rep = common.Report(PID, "model_checking")
    rep.rule = ("one case = one declaration skeleton (scalar: type x initialiser; array: dtype x row lengths x shape declaration x "
                "parameter positions x use) run symbolically through blackbird.loads; distinct = distinct skeletons")
    rep.bounds = {"arrays": "rows<=3, columns<=3, ragged rows included; plus 1x12, 11x1, 2x10 (two-digit dimensions); int arrays also with float-valued entries", "declared shape": "absent / symbolic (2 solver ints) / exact / transposed",
                  "parameters per array": "<=2 (quick) / <=3 all positions (thorough)", "index": "A[k], k symbolic in range"}
    rep.assumptions = [
        "floats are reals; element kinds compared exactly",
        "type-compatible initialisers only (int<-int, float<-int/float, complex<-any numeric; int arrays also with float-valued entries, truncated like an int scalar); complex into int/float is C11's",
        "an integer converted to a double is exact up to 2**53 and an unconstrained double beyond (terms.to_f64): precision loss by a needless int->float->int trip shows; arithmetic itself is over the reals",
        "rejection = any exception (the property fixes no class for shape/ragged errors)",
        "reference: bbverif/ref/interp.py arrayvar/scalarvar; stubs: bbverif/pysym/stubs.py",
    ]
    specs = gen_specs(t, common.seed())
    results = U.run_parallel(_script.run_spec, [(MOD, s) for s in specs])
    U.collect(rep, results, key_fn=_script.default_key, replay_fn=_script.replay_src(MOD),
              sample_fn=lambda r: {"script": r["text"], "paths": r["paths"], "reference_cases": r.get("refcases")})
    return rep.finish()


if __name__ == "__main__":
    sys.exit(main())
