"""C02 - loading a script yields exactly the program the script denotes.

Skeleton scripts: metadata variant x sequence of statement variants; every literal, mode number and option value
is a solver variable.  The real blackbird.loads runs on proxies; the reference interpreter (bbverif/ref/interp.py)
gives the denoted program; z3 decides, per path, whether any value assignment makes them differ.
"""
import itertools
import random
import sys

import z3

from .. import common
from . import _script, _util as U, _gwin

PID = "C02"
MOD = "bbverif.checks.c02"

META = ["plain", "target", "target_opts", "type", "target_type_opts", "device", "blank_lines", "str_opts", "odd_str_opts", "pos_and_kw_opts", "empty_and_list_opts",
        # the version is reported as written, whatever its spelling
        "ver:1.10", "ver:01.5", "ver:2.00", "ver:1e1", "ver:1.5E-3", "ver:0.10", "ver:1.0000000000000000001", "ver:10.0e+0"]
STMTS = ["noargs1", "noargs2_sq", "noargs2_rb", "noargs2_bare", "pos_num", "pos_mixed", "kw_num", "kw_list", "kw_mixed",
         "pos_kw", "measure", "measure_kw", "var_int_mode", "var_float_arg", "var_expr", "var_str_bool", "array_arg",
         "array_idx", "loop_list", "loop_repeat", "loop_range", "trailing_comma", "expr_mode", "complex_arg", "empty_args", "str_like_literals", "number_spellings",
         "repeat_stmt", "high_index", "int_ops_in_modes", "int_divisors", "loop_index_func_kwlist", "redeclare_after_loop", "str_odd_chars"]


class Env:
    def __init__(self, lv):
        self.lv = lv
        self.n = 0
        self.modes = []     # z3 vars of mode leaves (assumed pairwise distinct)

    def name(self, pre):
        self.n += 1
        return "%s%d" % (pre, self.n)

    def mode(self):
        t = self.lv.int()
        if self.lv.symbolic:
            self.modes.append(self.lv.vars[-1][2])
        return t


def meta_lines(kind, lv):
    L = ["name prog_%s" % kind, "version 1.0"]
    if kind.startswith("ver:"):
        L = ["name prog_ver", "version " + kind[4:], "target X8 (n=%s)" % lv.int()]
    if kind == "target":
        L.append("target X8_01")
    elif kind == "device":
        L.append("target 1.x_y")
    elif kind == "target_opts":
        L.append('target gaussian (shots=%s, cutoff_dim=%s, label="abc", flag=True, eps=%s)' % (lv.int(), lv.int(), lv.float()))
    elif kind == "type":
        L.append("type tdm")
    elif kind == "target_type_opts":
        L.append("target TD2 (shots=%s)" % lv.int())
        L.append("type tdm2 (temporal_modes=%s, copies=%s, names=[\"a\", \"b\"], vals=[%s, %s])" % (lv.int(), lv.int(), lv.int(), lv.float()))
    elif kind == "str_opts":
        # strings whose content is spelled like another kind of literal stay strings
        L.append('target dev (label="True", tag="1.5", flag="False", n=%s)' % lv.int())
        L.append('type kind (mode="pi", names=["None", "2j", "False"])')
    elif kind == "odd_str_opts":
        L.append('target dev (label="a\x0cb", tag="x\u2028y ", n=%s)' % lv.int())
        L.append('type kind (names=["\x0b", "\x85", " # "])')
    elif kind == "pos_and_kw_opts":
        # positional entries in the option brackets are ignored (with a warning); the keyword options next to them are kept
        L.append("target gaussian (%s, shots=%s, cutoff_dim=%s)" % (lv.int(), lv.int(), lv.int()))
        L.append('type tdm ("x", %s, copies=%s)' % (lv.float(), lv.int()))
    elif kind == "empty_and_list_opts":
        L.append("target X8 ()")
        L.append("type tdm (temporal_modes=%s, shifts=[%s], flags=[True, False])" % (lv.int(), lv.int()))
    elif kind == "blank_lines":
        L = ["", "name prog_blank", "", "version 1.0", "", "target foo", ""]
    return L


def stmt_lines(kind, env):
    lv = env.lv
    m = env.mode
    if kind == "noargs1":
        return ["Vac | %s" % m()]
    if kind == "number_spellings":
        # the same numbers written with leading zeros, upper-case / signed exponents, trailing zeros (concrete literals)
        return ["int n = 007", "Dgate(0100, 01.50, 1e05, 1E+2, 2.50e-01, k=00, j=007+02j) | [01, 002]", "Vac | n", "Rgate(1e+16, 0.000001, 123456789012345678) | 3"]
    if kind == "str_odd_chars":
        # characters that Python's str methods treat as line breaks / blanks / digits but that are ordinary characters of a string
        # literal (STR : '"' (~["\n\r])* '"'): a string comes back exactly as written
        v = env.name("s")
        return ['str %s = "a\x0cb"' % v, 'Gate("x\x0by", " lead and trail ", %s, k="u\u2028v\u2029w", names=["\x1c", "\x85z", "t\tt", "\xa0\u3000"], w=%s) | %s' % (lv.float(), v, m()),
                'Gate("\u0661\u0662", "#no comment", "caf\u00e9 \u00df", k="\x1d\x1e") | %s' % m()]
    if kind == "str_like_literals":
        v = env.name("s")
        return ['str %s = "False"' % v, 'Gate("True", "False", %s, k="pi", names=["1", "None", "True", "q0"], w=%s) | %s' % (lv.float(), v, m()),
                'Gate("0.5", "1j", "sqrt(2)") | %s' % m()]
    if kind == "noargs2_sq":
        return ["BSgate | [%s, %s]" % (m(), m())]
    if kind == "noargs2_rb":
        return ["BSgate | (%s, %s)" % (m(), m())]
    if kind == "noargs2_bare":
        return ["CZgate | %s, %s, %s" % (m(), m(), m())]
    if kind == "pos_num":
        return ["Dgate(%s, %s) | %s" % (lv.float(), lv.int(), m())]
    if kind == "pos_mixed":
        return ['Foo(%s, "text", False, %s) | [%s, %s]' % (lv.int(), lv.complex("a+bj"), m(), m())]
    if kind == "kw_num":
        return ["Sgate(r=%s, phi=%s) | %s" % (lv.float(), lv.int(), m())]
    if kind == "kw_list":
        return ["Gate(vals=[%s, %s, %s], names=[\"x\", True]) | %s" % (lv.int(), lv.float(), lv.int(), m())]
    if kind == "kw_mixed":
        return ['Gate(a="s", b=True, c=%s) | %s' % (lv.complex("a-bj"), m())]
    if kind == "pos_kw":
        return ["Rgate(%s, %s*%s, select=%s, dark=False) | [%s]" % (lv.float(), lv.int(), lv.float(), lv.int(), m())]
    if kind == "measure":
        return ["MeasureFock | [%s, %s]" % (m(), m())]
    if kind == "measure_kw":
        return ["MeasureHomodyne(phi=%s, select=%s) | %s" % (lv.float(), lv.float(), m())]
    if kind == "var_int_mode":
        v = env.name("n")
        return ["int %s = %s" % (v, m()), "Vac | %s" % v, "BSgate(%s) | [%s, %s]" % (v, m(), v)]
    if kind == "var_float_arg":
        v = env.name("x")
        return ["float %s = %s" % (v, lv.float()), "Dgate(%s, -%s) | %s" % (v, v, m())]
    if kind == "var_expr":
        v, u = env.name("x"), env.name("y")
        return ["float %s = %s" % (v, lv.float()), "float %s = %s*%s+%s" % (u, v, lv.int(), lv.float()), "Sgate(%s/%s) | %s" % (u, lv.float(), m())]
    if kind == "var_str_bool":
        s, b = env.name("s"), env.name("b")
        return ['str %s = "hello"' % s, "bool %s = True" % b, "Gate(%s, %s, k=%s) | %s" % (s, b, b, m())]
    if kind == "array_arg":
        a = env.name("A")
        return ["float array %s =" % a, "    %s, %s" % (lv.float(), lv.float()), "    %s, %s" % (lv.float(), lv.float()), "Interferometer(%s) | [%s, %s]" % (a, m(), m())]
    if kind == "array_idx":
        a = env.name("B")
        return ["int array %s[1, 3] =" % a, "    %s, %s, %s" % (lv.int(), lv.int(), lv.int()), "Dgate(%s[1], %s[0]+%s[2]) | %s" % (a, a, a, m())]
    if kind == "loop_list":
        i = env.name("i")
        return ["for int %s in [%s, %s]" % (i, m(), m()), "    Vac | %s" % i, "    Dgate(%s) | %s" % (lv.float(), i)]
    if kind == "loop_repeat":
        # the same value written several times (doc/syntax.rst: for int i in [0, 2, 1, 0, 2, 1])
        i = env.name("i")
        a, b = m(), m()
        return ["for int %s in [%s, %s, %s, %s]" % (i, a, b, a, b), "    Rgate(%s) | %s" % (lv.float(), i)]
    if kind == "loop_range":
        i = env.name("i")
        return ["for int %s in 2:5" % i, "    Rgate(%s*%s) | 7" % (i, lv.float())]
    if kind == "trailing_comma":
        return ["Dgate(%s, phi=%s) | %s" % (lv.float(), lv.float(), m()), "Xgate(%s,) | %s" % (lv.int(), m())]
    if kind == "expr_mode":
        v = env.name("k")
        return ["int %s = %s" % (v, lv.int()), "Vac | [%s+%s, %s]" % (v, lv.int(), m())]
    if kind == "complex_arg":
        return ["Zgate(%s, -%s) | %s" % (lv.complex("bj"), lv.complex("a+bj"), m())]
    if kind == "empty_args":
        return ["Vacuum() | %s" % m()]
    if kind == "int_ops_in_modes":
        # integer arithmetic (powers, products, brackets, unary minus) where an integer is required: modes, indices, int variables
        a, k = env.name("P"), env.name("k")
        return ["int %s = 2" % k, "int array %s =" % a, "    " + ", ".join(lv.int() for _ in range(9)),
                "BSgate(%s[2**%s], %s[2**3], %s[%s*%s+1]) | [2**%s-1, 2**%s, 3**2*2]" % (a, k, a, a, k, k, k, k),
                "int n%s = 3**%s" % (k, k), "Vac | [n%s, -(-2)**3, (1+%s)*4]" % (k, k)]
    if kind == "int_divisors":
        # quotients whose divisor is a computed integer, an int variable, an element of an int array or a loop variable
        a, k, x = env.name("M"), env.name("k"), env.name("x")
        return ["int %s = %s" % (k, lv.int()), "float %s = %s" % (x, lv.float()), "int array %s =" % a, "    %s, %s" % (lv.int(), lv.int()),
                "Dgate(1/(1+%s), %s/2**2, %s/%s[1], k=%s/(%s*%s[0])) | %s" % (k, x, x, a, lv.int(), k, a, m()),
                "for int j%s in [%s, %s]" % (k, lv.int(), lv.int()), "    Rgate(%s/(j%s+1), 1/j%s) | %s" % (x, k, k, m())]
    if kind == "loop_index_func_kwlist":
        # several features in one statement: a loop variable inside an array index inside a function call / a list-valued keyword
        # argument / an expression mode
        a, i = env.name("W"), env.name("i")
        return ["float array %s =" % a, "    %s, %s, %s" % (lv.float(), lv.float(), lv.float()), "for int %s in [0, 1]" % i,
                "    Gate(sin(%s[%s]), vals=[%s[%s+1]*2, -%s[%s], %s], k=%s[2*%s]) | [%s+200, %s*%s+300]" % (a, i, a, i, a, i, i, a, i, i, i, i)]
    if kind == "redeclare_after_loop":
        # an array indexed inside a loop, declared again with other values after the loop, indexed again outside any loop
        a, j = env.name("R"), env.name("j")
        return ["float array %s =" % a, "    %s, %s" % (lv.float(), lv.float()), "for int %s in [0, 1]" % j, "    Rgate(%s[%s]) | %s" % (a, j, m()),
                "float array %s =" % a, "    %s, %s, %s" % (lv.float(), lv.float(), lv.float()),
                "Dgate(%s[1], k=%s[0], vals=[%s[2], %s[1]]) | [%s]" % (a, a, a, a, m()), "Vac | %s" % m()]
    if kind == "repeat_stmt":
        # the same statement written twice in a row, and a third time after another one: three operations each time
        a, b, x = m(), m(), lv.float()
        s1, s2 = "Sgate(%s, k=%s) | [%s, %s]" % (x, x, a, b), "Vac | %s" % a
        return [s1, s1, s2, s2, s1]
    if kind == "high_index":
        # two-digit indices into a long row, first / last element, descending order of indices and modes
        a = env.name("L")
        els = [lv.int() for _ in range(12)]
        return ["int array %s =" % a, "    " + ", ".join(els), "Dgate(%s[11], %s[10], %s[9], %s[0]) | %s" % (a, a, a, a, m()),
                "Gate(%s[10]-%s[1], k=%s[11]) | [%s, %s]" % (a, a, a, m(), m())]
    raise ValueError(kind)


def gen(spec, lv):
    if spec[0] == "G":
        return _gwin.gen(spec, lv)
    meta, stmts = spec
    env = Env(lv)
    lines = meta_lines(meta, lv) + [""]
    for s in stmts:
        lines += stmt_lines(s, env)
    text = "\n".join(lines) + "\n"
    pre = []
    if lv.symbolic and len(env.modes) > 1:
        pre.append(z3.Distinct(env.modes))
        # loop_range uses the literal mode 7 and var/expr modes: keep symbolic modes away from small constants
        pre += [v >= 100 for v in env.modes]
    return {"text": text, "pre": pre}


VARLIKE = ["redeclare_after_loop", "var_int_mode", "var_float_arg", "var_expr", "var_str_bool", "array_arg", "array_idx", "high_index", "int_ops_in_modes", "loop_list"]


def tdm_pair_specs(varlike_only=False):
    """every ordered pair of statement variants under `type tdm` (tdm programs keep and re-declare their variables: what a
    statement declares meets what every other statement uses)"""
    ss = VARLIKE if varlike_only else STMTS
    return [("type", (a, b)) for a in ss for b in ss]


def gen_specs(tier, seed):
    rnd = random.Random(seed)
    specs = []
    for mk in META:
        for s in STMTS:
            specs.append((mk, (s,)))
    if tier != "sample-only":
        # the small end: metadata only (no statement at all), with and without a trailing blank line
        for mk in META:
            specs.append((mk, ()))
    pairs = list(itertools.product(STMTS, STMTS))
    for (a, b) in pairs:
        specs.append(("plain", (a, b)))
    triples = list(itertools.product(STMTS, repeat=3))
    rnd.shuffle(triples)
    n3 = 250 if tier == "quick" else 9000
    for t in triples[:n3]:
        specs.append((rnd.choice(META), t))
    if tier != "sample-only":
        specs += tdm_pair_specs(varlike_only=(tier == "quick"))
    if tier == "thorough":
        for _ in range(5000):
            specs.append((rnd.choice(META), tuple(rnd.choice(STMTS) for _ in range(rnd.choice((4, 5))))))
    return specs


def main():
    t = common.tier()
    rep = common.Report(PID, "model_checking")
    rep.rule = ("one case = one skeleton script (metadata variant x statement-variant sequence) run symbolically through blackbird.loads; "
                "distinct = distinct skeletons; non-trivial = has symbolic literals/modes")
    rep.bounds = {"statements per script": "<=3 (quick) / <=5 (thorough) variants, each 1-4 lines", "metadata variants": len(META),
                  "statement variants": len(STMTS), "loops": "list of 2, range 2:5",
                  "pairs under type tdm": "every ordered pair of the %d declaring variants (quick) / of all variants (thorough)" % len(VARLIKE),
                  "metadata-only scripts": "one per metadata variant"}
    rep.assumptions = [
        "floats are reals; kinds (int/float/complex) are compared exactly, values by solver",
        "written modes are pairwise distinct unless syntactically the same expression (precondition for the mode-set comparison)",
        "reference interpreter bbverif/ref/interp.py is the denotation (written from the property text and doc/syntax.rst)",
        "stubs: see bbverif/pysym/stubs.py docstring (shadowed int/float/complex/bool/str, np shim, range, type tables wrapped)",
        "includes are C07's; scripts longer than the bound are not claimed",
    ]
    specs = gen_specs(t, common.seed())
    jobs = [(MOD, s) for s in specs]
    results = U.run_parallel(_script.run_spec, jobs)
    # skeletons enumerated by the solver from blackbird.g4 (every sentence of a rule with a free token window); the ones
    # the reference refuses are C11's
    gs = _gwin.specs_for(rep, t, "accept")
    results += U.run_parallel(_gwin.run_gspec, [(MOD, g) for g in gs])
    U.collect(rep, results, key_fn=_script.default_key, replay_fn=_script.replay_src(MOD),
              sample_fn=lambda r: {"script": r["text"], "paths": r["paths"], "reference_cases": r.get("refcases")})
    return rep.finish()


if __name__ == "__main__":
    sys.exit(main())
