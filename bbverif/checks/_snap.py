"""Observable snapshots of programs (values may be proxies) and their comparison.
A snapshot is a nested structure of tuples/strings and ('num', kindtag, V) leaves; two snapshots are compared
structurally, numeric leaves by z3 term equality (returned as conditions)."""
import numpy as np
import sympy
import z3

from ..pysym import terms as T, proxies as P


def val(x):
    if P.is_proxy(x):
        return ("num", P.tag_of(x).__name__, P.as_v(x))
    if isinstance(x, (bool, np.bool_)):
        return ("bool", bool(x))
    if isinstance(x, (int, float, complex, np.number)):
        return ("num", type(x).__name__, T.const(x)) if _finite(x) else ("nonfinite", repr(x))
    if isinstance(x, str):
        return ("str", str(x))
    if x is None:
        return ("none",)
    if isinstance(x, (list, tuple)):
        return ("list", tuple(val(e) for e in x))
    if isinstance(x, dict):
        return ("dict", tuple((k, val(v)) for k, v in x.items()))
    if isinstance(x, (set, frozenset)):
        return ("set", tuple(sorted((val(e) for e in x), key=repr)))
    if isinstance(x, np.ndarray):
        return ("array", tuple(x.shape), str(x.dtype), tuple(val(e) for e in np.ndarray.flatten(x).tolist()) if x.dtype != object else tuple(val(e) for e in np.ndarray.flatten(x)))
    if isinstance(x, sympy.Basic):
        return ("sympy", sympy.srepr(x))
    if type(x).__name__ == "RegRefTransform":
        return ("regref", str(x.func_str), tuple(x.regrefs), sympy.srepr(x.expr), _probe(x))
    return ("obj", type(x).__name__, repr(x)[:80])


def _probe(tr):
    """what the transform's function computes at fixed concrete points (its behaviour, not only its description)"""
    out = []
    for base in (0.75, -1.375):
        try:
            v = complex(tr.func(*[base + 0.5 * k for k in range(len(tr.regrefs))]))
            out.append("%.9g%+.9gj" % (v.real, v.imag))
        except Exception as e:  # noqa
            out.append("raises " + type(e).__name__)
    return ("probe", tuple(out))


def _finite(x):
    try:
        c = complex(x)
        return c == c and abs(c) != float("inf")
    except Exception:  # noqa
        return True


def program(p, with_text=None):
    ops = []
    for o in p.operations:
        ops.append(tuple((k, val(v)) for k, v in o.items()))
    s = {
        "name": val(p.name), "version": val(p.version),
        "target": val(p.target), "type": val(p.programtype),
        "operations": ("ops", tuple(ops)),
        "variables": val(p.variables),
        "parameters": ("params", tuple(sorted(p.parameters))),
        "modes": val(p.modes),
        "len": ("len", len(p)),
    }
    if with_text is not None:
        s["dumps"] = ("text", with_text)
    return s


def diff(a, b, where=""):
    """list of (where, cond): cond True = structural difference, z3 Bool = numeric leaves differ"""
    out = []
    if isinstance(a, dict) and isinstance(b, dict):
        for k in sorted(set(a) | set(b)):
            if k not in a or k not in b:
                out.append((where + "/" + str(k), True))
            else:
                out += diff(a[k], b[k], where + "/" + str(k))
        return out
    if isinstance(a, tuple) and isinstance(b, tuple):
        if a[:1] == ("num",) and b[:1] == ("num",):
            if a[1] != b[1]:
                out.append((where + " type %s vs %s" % (a[1], b[1]), True))
                return out
            ne = z3.simplify(z3.Not(T.eq(a[2], b[2])))
            if not z3.is_false(ne):
                out.append((where, ne))
            return out
        if len(a) != len(b):
            out.append((where + " (%s vs %s)" % (_short(a), _short(b)), True))
            return out
        for i, (x, y) in enumerate(zip(a, b)):
            out += diff(x, y, where + ("[%d]" % i if not isinstance(x, str) else ""))
        return out
    if a != b:
        out.append((where + " (%s vs %s)" % (_short(a), _short(b)), True))
    return out


def _short(x):
    s = repr(x)
    return s if len(s) < 70 else s[:67] + "..."


def mutable_ids(obj, acc=None, depth=0):
    """ids of mutable containers reachable from obj (dict, list, set, ndarray, program objects)"""
    acc = acc if acc is not None else {}
    if depth > 8 or id(obj) in acc:
        return acc
    if isinstance(obj, (dict, list, set, np.ndarray)) or hasattr(obj, "_operations"):
        acc[id(obj)] = obj
    if isinstance(obj, dict):
        for v in obj.values():
            mutable_ids(v, acc, depth + 1)
    elif isinstance(obj, (list, tuple, set)):
        for v in obj:
            mutable_ids(v, acc, depth + 1)
    elif hasattr(obj, "_operations"):
        for attr in ("_var", "_forvar", "_modes", "_target", "_type", "_operations", "_parameters"):
            mutable_ids(getattr(obj, attr, None), acc, depth + 1)
    elif type(obj).__name__ == "RegRefTransform":
        mutable_ids(obj.regrefs, acc, depth + 1)
    return acc
