"""C18 - comments, blank lines, spacing and line-ending style do not change the program.

E1 (shipped lexer / parser automata, z3 over symbolic characters / tokens):
 O1 blank runs      : inserting 1-3 spaces at any token boundary between non-blank characters leaves every other token
                      (type, text) unchanged and adds one skipped SPACE token        (all strings <= M)
 O2 comments        : inserting '#'+w before a line end / end of input adds one skipped COMMENT token
 O3 line endings    : LF -> CR (position-wise) and LF -> CRLF (<= 2 newlines at any positions) keep the token-type
                      sequence; a tab and four spaces at a line start before a non-blank both give one TAB token
 O4 blank lines     : token level, for all sentences <= N tokens: a NEWLINE inserted after a NEWLINE (not before TAB, not
                      after 'ASSIGN NEWLINE'), a NEWLINE added/removed before EOF, NEWLINEs prepended keep it a sentence
 O5 (argument)      : listener.py / auxiliary.py never read NEWLINE/TAB/SPACE/COMMENT terminals (AST scan, every run)
E2 O6 metamorphic   : skeleton scripts with symbolic values are loaded in several layout variants (spaces, comments,
                      blank lines, CRLF/CR, tab/4 spaces, final newline); z3 decides content inequality
"""
import ast
import itertools
import os
import random
import sys
import time

import z3

from .. import common
from ..atnsmt import lang as langmod, nfa, cfg, atns
from . import _util as U

PID = "C18"
MOD = "bbverif.checks.c18"

BOUNDS = {"quick": {"M": 7, "N": 13, "CM": 6}, "thorough": {"M": 11, "N": 18, "CM": 8}}
SP, TABC, LF, CR, HASH, QUOTE = 32, 9, 10, 13, 35, 34


# ----------------------------------------------------------------------------- lexer chain encoding
class Chain:
    """tokenisation of a string given as a list of z3 21-bit expressions: start[i], len/type predicates"""

    def __init__(self, lg, chars):
        self.lg = lg
        self.x = chars
        n = len(chars)
        self.n = n
        rules = [(nm, t, m) for (nm, t, m) in lg.lexer_A() if t is not None]
        self.rules = rules
        self.acc = {}      # (rule name, i) -> list over k
        for (nm, t, m) in rules:
            for i in range(n):
                self.acc[(nm, i)] = nfa.unroll(m, chars, off=i)
        self.anyk = {}
        for i in range(n):
            for k in range(1, n - i + 1):
                self.anyk[(i, k)] = z3.Or([self.acc[(nm, i)][k] for (nm, _, _) in rules])
        # mlen(i, k): the token starting at i has length k
        self.mlen = {}
        for i in range(n):
            for k in range(1, n - i + 1):
                longer = [self.anyk[(i, k2)] for k2 in range(k + 1, n - i + 1)]
                self.mlen[(i, k)] = z3.And(self.anyk[(i, k)], z3.Not(z3.Or(longer))) if longer else self.anyk[(i, k)]
        self.start = [z3.BoolVal(True)]
        for j in range(1, n + 1):
            self.start.append(z3.Or([z3.And(self.start[i], self.mlen[(i, j - i)]) for i in range(j)]))

    def is_type(self, i, k, name):
        """token at i of length k has type `name` (earliest rule accepting that length)"""
        earlier = []
        for (nm, _, _) in self.rules:
            if nm == name:
                break
            earlier.append(self.acc[(nm, i)][k])
        a = self.acc[(name, i)][k]
        return z3.And(a, z3.Not(z3.Or(earlier))) if earlier else a

    def tok_eq(self, i, other, j, kmax):
        """the token starting at i here equals (type and length) the token starting at j in `other`"""
        conds = []
        for k in range(1, kmax + 1):
            a = self.mlen.get((i, k))
            b = other.mlen.get((j, k))
            if a is None and b is None:
                continue
            a = a if a is not None else z3.BoolVal(False)
            b = b if b is not None else z3.BoolVal(False)
            conds.append(a == b)
            if (i, k) in self.mlen and (j, k) in other.mlen:
                for (nm, _, _) in self.rules:
                    conds.append(z3.Implies(z3.And(a, b), self.acc[(nm, i)][k] == other.acc[(nm, j)][k]))
        return z3.And(conds) if conds else z3.BoolVal(True)


def _chars(n, prefix="c"):
    return [z3.BitVec("%s%d" % (prefix, i), 21) for i in range(n)]


def blank(c):
    return z3.Or(c == SP, c == TABC)


def lexer_job(job):
    """one (obligation, L, p, k) query; returns dict"""
    kind, L, p, k = job
    t0 = time.time()
    lg = langmod.Lang()
    cs = _chars(L)
    sol = z3.Solver()
    sol.set("timeout", 120000)
    for c in cs:
        sol.add(z3.ULE(c, nfa.MAXCP))
    A = Chain(lg, cs)
    if kind == "O1":
        ins = [z3.BitVecVal(SP, 21)] * k
    elif kind == "O2":
        w = _chars(k, "w")
        for c in w:
            sol.add(z3.ULE(c, nfa.MAXCP), c != LF, c != CR, c != QUOTE)
        ins = [z3.BitVecVal(HASH, 21)] + w
    xs = cs[:p] + ins + cs[p:]
    B = Chain(lg, xs)
    d = len(ins)
    pre = [A.start[p]]
    # valid scripts contain no lone QUOTE tokens (the parser has no rule for them): excluded from the claim
    for i in range(L):
        pre.append(z3.Not(z3.And(A.start[i], A.mlen[(i, 1)], A.is_type(i, 1, "QUOTE"))))
    if kind == "O1":
        if p > 0:
            pre.append(z3.Not(blank(cs[p - 1])))
        if p < L:
            pre.append(z3.Not(blank(cs[p])))
    else:
        if p < L:
            pre.append(z3.Or(cs[p] == LF, cs[p] == CR))
    # the token ending at p is not a COMMENT (a blank/comment after a comment only lengthens the skipped comment)
    for i in range(p):
        pre.append(z3.Not(z3.And(A.start[i], A.mlen[(i, p - i)], A.is_type(i, p - i, "COMMENT"))))
    concl = []
    for j in range(p + 1):
        concl.append(B.start[j] == A.start[j])
    for i in range(p):
        concl.append(z3.Implies(A.start[i], B.tok_eq(i, A, i, L - i)))
    skipped = "SPACE" if kind == "O1" else "COMMENT"
    concl.append(z3.And(B.mlen[(p, d)], B.is_type(p, d, skipped)))
    for j in range(p, L + 1):
        concl.append(B.start[j + d] == A.start[j])
    for i in range(p, L):
        concl.append(z3.Implies(A.start[i], B.tok_eq(i + d, A, i, L - i)))
    sol.add(z3.And(pre))
    if str(sol.check()) != "sat":
        return {"job": job, "result": "vacuous", "dt": time.time() - t0}     # reachability twin failed
    sol.add(z3.Not(z3.And(concl)))
    r = sol.check()
    out = {"job": job, "result": str(r), "dt": time.time() - t0}
    if str(r) == "sat":
        m = sol.model()
        s = "".join(chr(m.eval(c, model_completion=True).as_long()) for c in cs)
        s2 = "".join(chr(m.eval(c, model_completion=True).as_long()) for c in xs)
        out["witness"] = (s, s2)
    return out


LAYOUT_RULES = ("STR", "COMMENT", "TAB", "SPACE", "NEWLINE", "ANY")


def noblank_job(job):
    """O7: no token other than a string, a comment or layout itself contains a blank - so blanks can only *separate* tokens, and
    one blank does what two or three do (O1 inserts blanks only where none is adjacent)"""
    _, M, rule = job
    t0 = time.time()
    lg = langmod.Lang()
    cs = _chars(M)
    sol = z3.Solver()
    sol.set("timeout", 120000)
    for c in cs:
        sol.add(z3.ULE(c, nfa.MAXCP))
    m = [mm for (nm, t, mm) in lg.lexer_A() if nm == rule][0]
    acc = nfa.unroll(m, cs, off=0)
    if str(sol.check(z3.Or([acc[k] for k in range(1, M + 1)]))) != "sat":
        return {"job": job, "result": "vacuous", "dt": time.time() - t0}
    sol.add(z3.Or([z3.And(acc[k], z3.Or([blank(cs[j]) for j in range(k)])) for k in range(1, M + 1)]))
    r = sol.check()
    out = {"job": job, "result": str(r), "dt": time.time() - t0}
    if str(r) == "sat":
        mdl = sol.model()
        for k in range(M, 0, -1):
            if z3.is_true(mdl.eval(acc[k], model_completion=True)):
                w = "".join(chr(mdl.eval(c, model_completion=True).as_long()) for c in cs[:k])
                if " " in w or "\t" in w:
                    out["witness"] = (w, w)
                    break
    return out


def newline_job(job):
    """O3: LF -> CR position-wise (kind 'cr'), LF -> CRLF at concrete newline positions (kind 'crlf'), tab vs 4 spaces ('tab')"""
    kind, L, pos = job
    t0 = time.time()
    lg = langmod.Lang()
    cs = _chars(L)
    sol = z3.Solver()
    sol.set("timeout", 120000)
    for c in cs:
        sol.add(z3.ULE(c, nfa.MAXCP))
    lfv, crv = z3.BitVecVal(LF, 21), z3.BitVecVal(CR, 21)
    if kind == "cr":
        for c in cs:
            sol.add(c != CR)
        xs = [z3.If(c == LF, crv, c) for c in cs]
        A, B = Chain(lg, cs), Chain(lg, xs)
        concl = [B.start[j] == A.start[j] for j in range(L + 1)] + [z3.Implies(A.start[i], B.tok_eq(i, A, i, L - i)) for i in range(L)]
        shift = None
    elif kind == "crlf":
        for i, c in enumerate(cs):
            sol.add(c != CR)
            if i in pos:
                sol.add(c == LF)
            else:
                sol.add(c != LF)
        xs = []
        mp = {}
        for i, c in enumerate(cs):
            mp[i] = len(xs)
            if i in pos:
                xs += [crv, lfv]
            else:
                xs.append(c)
        mp[L] = len(xs)
        A, B = Chain(lg, cs), Chain(lg, xs)
        concl = [B.start[mp[j]] == A.start[j] for j in range(L + 1)]
        for i in range(L):
            # same type; length grows by the number of newlines inside the token (only a NEWLINE token can contain one)
            for k in range(1, L - i + 1):
                k2 = mp[i + k] - mp[i]
                a = A.mlen[(i, k)]
                for (nm, _, _) in A.rules:
                    concl.append(z3.Implies(z3.And(A.start[i], a), z3.And(B.mlen[(mp[i], k2)], B.is_type(mp[i], k2, nm) == A.is_type(i, k, nm))))
    else:
        # tab vs four spaces at a line start before a non-blank character; pos = (p,)
        p = pos[0]
        if p > 0:
            sol.add(z3.Or(cs[p - 1] == LF, cs[p - 1] == CR))
        if p < L:
            sol.add(z3.Not(blank(cs[p])))
        sp = z3.BitVecVal(SP, 21)
        xa = cs[:p] + [z3.BitVecVal(TABC, 21)] + cs[p:]
        xb = cs[:p] + [sp] * 4 + cs[p:]
        A, B = Chain(lg, xa), Chain(lg, xb)
        concl = [B.start[j] == A.start[j] for j in range(p + 1)]
        concl += [z3.Implies(A.start[i], B.tok_eq(i, A, i, L + 1 - i)) for i in range(p)]
        pre = [A.start[p]]
        for i in range(p):
            pre.append(z3.Not(z3.And(A.start[i], A.mlen[(i, p - i)], A.is_type(i, p - i, "COMMENT"))))
        for i in range(L + 1):
            pre.append(z3.Not(z3.And(A.start[i], A.mlen[(i, 1)], A.is_type(i, 1, "QUOTE"))))
        sol.add(z3.And(pre))
        concl.append(z3.And(A.mlen[(p, 1)], A.is_type(p, 1, "TAB"), B.mlen[(p, 4)], B.is_type(p, 4, "TAB")))
        concl += [B.start[j + 3] == A.start[j] for j in range(p + 1, L + 2)]
        concl += [z3.Implies(A.start[i], B.tok_eq(i + 3, A, i, L + 1 - i)) for i in range(p + 1, L + 1)]
    if str(sol.check()) != "sat":
        return {"job": job, "result": "vacuous", "dt": time.time() - t0}
    sol.add(z3.Not(z3.And(concl)))
    r = sol.check()
    out = {"job": job, "result": str(r), "dt": time.time() - t0}
    if str(r) == "sat":
        m = sol.model()
        out["witness"] = ("".join(chr(m.eval(c, model_completion=True).as_long()) for c in (cs if kind != "tab" else xa)),
                          "".join(chr(m.eval(c, model_completion=True).as_long()) for c in (xs if kind != "tab" else xb)))
    return out


def replay_lex(lg, s, s2):
    """real lexer on both strings: emitted token (type, text) sequences must agree"""
    a = lg.real_tokens(s)
    b = lg.real_tokens(s2)
    return a != b, a, b


# ----------------------------------------------------------------------------- O4 parser level
def parser_job(job):
    kind, n, q = job
    t0 = time.time()
    lg = langmod.Lang()
    NA = lg.parser_A()
    NL, TABT, ASSIGN = lg.tok_ids["NEWLINE"], lg.tok_ids["TAB"], lg.tok_ids["ASSIGN"]
    toks = [z3.BitVec("t%d" % i, 8) for i in range(n)] + [z3.BitVecVal(0, 8)]
    nl = z3.BitVecVal(NL, 8)
    r = lg.rule_ids["start"]
    sol = z3.Solver()
    sol.set("timeout", 300000)
    for t in toks[:-1]:
        sol.add(z3.ULE(t, len(lg.token_names)), t != 0)
    ca = cfg.CFG(NA, toks, "A")
    sol.add(ca.X(r, 0, n + 1))
    if kind == "insert":
        sol.add(toks[q] == NL)
        if q + 1 < n:
            sol.add(toks[q + 1] != TABT)
        if q >= 1:
            sol.add(toks[q - 1] != ASSIGN)
        t2 = toks[:q + 1] + [nl] + toks[q + 1:]
    elif kind == "append":
        t2 = toks[:n] + [nl] + toks[n:]
    elif kind == "remove_final":
        sol.add(toks[n - 1] == NL)
        if n >= 2:
            sol.add(toks[n - 2] != ASSIGN)     # 'x array A = NEWLINE EOF' needs its NEWLINE: array body exception
        t2 = toks[:n - 1] + toks[n:]
    else:
        t2 = [nl] * q + toks
    if str(sol.check()) != "sat":
        return {"job": job, "result": "vacuous", "dt": time.time() - t0}     # no sentence of this length has the edit site
    cb = cfg.CFG(NA, t2, "B")
    sol.add(z3.Not(cb.X(r, 0, len(t2))))
    res = sol.check()
    out = {"job": job, "result": str(res), "dt": time.time() - t0}
    if str(res) == "sat":
        m = sol.model()
        out["witness"] = ([m.eval(t, model_completion=True).as_long() for t in toks], [m.eval(t, model_completion=True).as_long() for t in t2])
    return out


# ----------------------------------------------------------------------------- O5
def o5_scan(rep):
    bad = []
    for f in ("listener.py", "auxiliary.py"):
        src = open(os.path.join(atns.PYDIR, f)).read()
        tree = ast.parse(src)
        for node in ast.walk(tree):
            if isinstance(node, ast.Attribute) and node.attr in ("NEWLINE", "TAB", "SPACE", "COMMENT"):
                bad.append("%s:%d .%s" % (f, node.lineno, node.attr))
    rep.obligation("O5 listener/auxiliary never read NEWLINE/TAB/SPACE/COMMENT terminals (AST scan)", "holds" if not bad else "inconclusive", hits=bad)
    rep.evaluations += 1


# ----------------------------------------------------------------------------- O6 E2 metamorphic
def layout_variants(text, lg, rnd, nrandom):
    """layout edits the language declares insignificant, applied to a valid script"""
    toks = lg.real_tokens_pos(text)
    lines = text.split("\n")
    # which lines are inside an array body or loop body (indented) or array header
    def body(i):
        return lines[i].startswith(("    ", "\t")) or (i > 0 and lines[i - 1].rstrip().endswith("=") and " array " in lines[i - 1])
    variants = {}

    def spaced(k, every=True, pick=None):
        out = []
        for li, line in enumerate(lines):
            if not line.strip():
                out.append(line)
                continue
            indent = line[:len(line) - len(line.lstrip(" \t"))]
            cols = sorted({c for (nm, tx, ln, c) in toks if ln == li + 1 and c > len(indent)} | {len(line)})
            res = line
            for c in reversed(cols):
                if every or (pick and pick()):
                    if c <= len(indent):
                        continue
                    # runs of one to three spaces only (four spaces are a TAB token): insert only where no blank is adjacent
                    if (c > 0 and res[c - 1] in " \t") or (c < len(res) and res[c] in " \t"):
                        continue
                    res = res[:c] + " " * k + res[c:]
            out.append(res)
        return "\n".join(out)

    variants["spaces1"] = spaced(1)
    variants["spaces3"] = spaced(3)
    variants["comments"] = "\n".join((l + " # note" if l.strip() and not body(i) else (l + "#x" if l.strip() else l)) for i, l in enumerate(lines))
    outl = ["# leading comment", ""]
    for i, l in enumerate(lines):
        outl.append(l)
        nxt_body = i + 1 < len(lines) and body(i + 1)
        if l.strip() and not nxt_body and not (l.rstrip().endswith("=") and " array " in l):
            outl += ["", "# own line"]
    variants["blank_and_comment_lines"] = "\n".join(outl)
    exotic = ["\x0c", "\x0b", "\x1c", "\x1d", "\x1e", "\x85", "\u2028", "\u2029"]
    variants["comments_exotic_chars"] = "\n".join((l + " # note" + exotic[i % len(exotic)] + "Vac | 63 " + exotic[(i + 3) % len(exotic)] + "float zz = 1.5" if l.strip() and not body(i) else l)
                                                  for i, l in enumerate(lines))
    # comments made of characters that mean something elsewhere in the language (quotes - also unbalanced -, commas before
    # digits, brackets, braces, keywords, the comment sign itself): a comment is layout whatever it contains
    pool = ['# 3/4" fibre, 1,2', "# it's {x} | [0, 1]", '# "', "# for int i in 0:2", '# "a" "b" "', "# = ,5 ,6 # ## ;", "# float array A[2,2] =", "# \\ \" \'", "# include \"x.xbb\"", "#\"#"]
    variants["comments_token_chars"] = "\n".join((l + " " + pool[i % len(pool)] if l.strip() and not body(i) else l) for i, l in enumerate(lines))
    outl = [pool[0], pool[2]]
    for i, l in enumerate(lines):
        outl.append(l)
        nxt_body = i + 1 < len(lines) and body(i + 1)
        if l.strip() and not nxt_body and not (l.rstrip().endswith("=") and " array " in l):
            outl.append(pool[(2 * i + 1) % len(pool)])
    variants["comment_lines_token_chars"] = "\n".join(outl)
    variants["one_unbalanced_quote_comment_first"] = '# 3/4" fibre\n' + text
    for base in ("comments", "blank_and_comment_lines", "spaces1", "comments_exotic_chars", "comments_token_chars", "comment_lines_token_chars"):
        variants[base + "_cr"] = variants[base].replace("\n", "\r")
        variants[base + "_crlf"] = variants[base].replace("\n", "\r\n")
    variants["crlf"] = text.replace("\n", "\r\n")
    variants["cr"] = text.replace("\n", "\r")
    variants["tabs"] = "\n".join(("\t" + l[4:] if l.startswith("    ") else l) for l in lines)
    # combinations (the property quantifies over all combinations of the edits): tab indentation x comments / blank lines / spacing x
    # line-ending style x final newline
    def tabbed(t):
        return "\n".join(("\t" + l[4:] if l.startswith("    ") else l) for l in t.split("\n"))
    variants["tabs_cr"] = variants["tabs"].replace("\n", "\r")
    variants["tabs_crlf"] = variants["tabs"].replace("\n", "\r\n")
    for base in ("comments", "blank_and_comment_lines", "spaces3"):
        tb = tabbed(variants[base])
        variants[base + "_tabs"] = tb
        variants[base + "_tabs_cr"] = tb.replace("\n", "\r")
        variants[base + "_tabs_crlf"] = tb.replace("\n", "\r\n")
    variants["tabs_cr_no_final_newline"] = variants["tabs_cr"].rstrip("\r")
    variants["crlf_no_final_newline"] = variants["crlf"].rstrip("\r\n")
    variants["no_final_newline"] = text.rstrip("\n")
    variants["extra_final_newlines"] = text + "\n\n"
    variants["leading_blank_lines"] = "\n\n" + text
    for r in range(nrandom):
        v = spaced(rnd.choice((1, 2, 3)), every=False, pick=lambda: rnd.random() < 0.4)
        if rnd.random() < 0.5:
            v = v.replace("\n", rnd.choice(("\r\n", "\r")))
        variants["random%d" % r] = v
    return variants


# own O6 skeletons: string values whose content looks like other parts of the language
O6_EXTRA = [
    ["name s1", "version 1.0", "", 'Gate("0,1", %(f)s, label="a,2 # b") | %(m)s', "Vac | %(m)s"],
    ["name s2", "version 1.0", 'target dev (label="x = {y}", tag="[1,2]", n=%(i)s)', "", 'str s = "for int i in 0:2"', 'Gate(s, k="# not a comment") | %(m)s', 'Gate(names=["1,2", "3 ,4"]) | %(m)s'],
    ["name s3", "version 1.0", "", 'str a = "2,3"', 'str b = "include"', 'str c = "1.5,2.5"', "Gate(a, b, %(i)s) | %(m)s", 'Gate(%(f)s, key=c) | [%(m)s, %(m)s]'],
    ["name s4", "version 1.0", "", "float array A =", "    %(f)s, %(f)s", "    %(f)s, %(f)s", 'Gate(A, "0,1") | %(m)s', "for str s in [\"1,2\", \"a#b\"]", '    Gate(s, k="7,8") | %(m)s'],
    ["name s5", "version 1.0", "", 'Gate("it\'s", "a | b", "(1,2)") | %(m)s', "Dgate(%(f)s ,%(f)s) | %(m)s", "MZgate(%(f)s, %(f)s) | [%(m)s ,%(m)s]"],
    # several features in one place: template parameters in later rows of a multi-row array, the array indexed by a loop variable
    ["name s6", "version 1.0", "", "float array A =", "    %(f)s, %(f)s", "    {p}, %(f)s", "    %(f)s, {q}", "Gate(A, k={p}) | %(m)s", "for int i in [0, 1]", "    Rgate(A[i], {q}) | i"],
    ["name s7", "version 1.0", "type tdm (copies=%(i)s)", "", "int array p0 =", "    %(i)s, %(i)s", "complex array W[2, 2] =", "    {w}", "float array B =", "    %(f)s", "    {b}", "    %(f)s", "Gate(p0, W, k=B) | [%(m)s, %(m)s]"],
]


def gen6(spec, lv):
    from . import c02, c11
    if spec[0] != "c18":
        return c02.gen(spec, lv)
    modes = []
    sub = c11.Sub(lv, modes)
    lines = [l % sub if "%(" in l else l for l in O6_EXTRA[spec[1]]]
    return {"text": "\n".join(lines) + "\n", "pre": [z3.Distinct(modes)] if lv.symbolic and len(modes) > 1 else []}


def _via_file(bb, text):
    """the same text loaded from a file (written byte for byte, line endings untouched)"""
    import tempfile
    d = tempfile.mkdtemp(prefix="bbverif_c18_")
    try:
        p = os.path.join(d, "script.xbb")
        with open(p, "w", newline="") as fh:
            fh.write(text)
        return bb.load(p)
    finally:
        import shutil
        shutil.rmtree(d, ignore_errors=True)


FILE_VARIANTS = ("cr", "comments_cr", "comments_crlf", "comments", "blank_and_comment_lines_cr", "tabs", "no_final_newline", "tabs_cr", "comments_tabs_crlf", "spaces3_tabs_cr")


def o6_run(arg):
    tier, spec, seed = arg
    from ..pysym import engine, stubs, skel
    from . import _script, _snap, c02
    w = _script.winit()
    bb = w["bb"]
    out = {"spec": spec, "result": "holds", "paths": 0, "stats": None, "why": None, "cex": None, "funcs": [], "reach": 0}
    lv = skel.Leaves()
    g = gen6(spec, lv)
    text = g["text"]
    rnd = random.Random(hash((seed, repr(spec))) & 0xFFFFFF)
    variants = layout_variants(text, w["lang"], rnd, 1 if tier == "quick" else 4)
    out["text"] = text
    E = engine.Engine(max_paths=800)
    E.reset_hooks.append(stubs.reset_tables)
    E.base = list(lv.cons) + list(g.get("pre", []))

    def run():
        base = _snap.program(bb.loads(text))
        res = {}
        for name, v in variants.items():
            try:
                res[name] = ("ok", _snap.program(bb.loads(v)))
            except engine.Abort:
                raise
            except Exception as e:  # noqa
                res[name] = ("exc", "%s: %s" % (type(e).__name__, str(e)[:150]))
            if name in FILE_VARIANTS and all(ord(c_) < 128 for c_ in v):
                try:
                    res[name + " (from a file)"] = ("ok", _snap.program(_via_file(bb, v)))
                except engine.Abort:
                    raise
                except Exception as e:  # noqa
                    res[name + " (from a file)"] = ("exc", "%s: %s" % (type(e).__name__, str(e)[:150]))
        return base, res

    try:
        paths = E.explore(run)
    except engine.PathLimit as e:
        out.update(result="inconclusive", why=str(e))
        return out
    out["paths"] = len(paths)
    for pth in paths:
        if pth.kind == "abort":
            out.update(result="inconclusive", why="abort: %s" % pth.value)
            continue
        if pth.kind == "exc":
            continue          # the base script itself does not load: not C18's subject
        out["reach"] += 1
        base, res = pth.value
        for name, (kind, val) in res.items():
            cands = []
            if kind == "exc":
                cands.append(("layout variant %s is rejected: %s" % (name, val), True))
            else:
                for where, cond in _snap.diff(base, val, "layout variant %s" % name):
                    cands.append((where, cond))
            for desc, cond in cands:
                c = z3.BoolVal(True) if cond is True else cond
                r, cex = U.find_replayable(E, pth, c, lv, lambda vals: o6_concrete(spec, name, vals, seed, tier, w))
                if r == "unsat":
                    continue
                if r == "sat":
                    cex["symbolic_what"] = desc
                    out.update(result="violation", cex=cex)
                    return out
                if r == "unknown":
                    out.update(result="inconclusive", why="solver unknown")
                else:
                    out.setdefault("unconfirmed", []).append({"what": desc, "text": text})
    out["stats"] = E.stats
    out["validated"] = 0
    return out


def o6_concrete(spec, vname, vals, seed, tier, w=None):
    from ..pysym import skel
    from . import _script, _snap, c02
    import blackbird
    import blackbird.auxiliary as aux
    w = w or _script.plain_env()
    lv = skel.Leaves(values=vals)
    text = gen6(spec, lv)["text"]
    rnd = random.Random(hash((seed, repr(spec))) & 0xFFFFFF)
    variants = layout_variants(text, w["lang"], rnd, 1 if tier == "quick" else 4)
    from_file = vname.endswith(" (from a file)")
    v = variants[vname[:-len(" (from a file)")] if from_file else vname]

    def load(t):
        aux._VAR.clear()
        aux._PARAMS.clear()
        try:
            if from_file and t is v:
                return ("ok", _snap.program(_via_file(blackbird, t)))
            return ("ok", _snap.program(blackbird.loads(t)))
        except Exception as e:  # noqa
            return ("exc", "%s: %s" % (type(e).__name__, str(e)[:200]))
        finally:
            aux._VAR.clear()
            aux._PARAMS.clear()

    a, b = load(text), load(v)
    if a[0] != "ok":
        return "skip"
    if b[0] == "ok" and not _snap.diff(a[1], b[1]):
        return None
    return {"text": "original:\n%s\n--- layout variant %s ---\n%s" % (text, vname, v), "values": vals, "vname": vname,
            "what": "layout variant %s changes the outcome" % vname, "observed": b[1] if b[0] == "exc" else "different program content", "expected": "the same program"}


REPLAY_O6 = '''#!/usr/bin/env python
import sys; sys.path.insert(0, %(root)r)
from bbverif.checks import c18
r = c18.o6_concrete(%(spec)r, %(vname)r, %(vals)r, %(seed)r, %(tier)r)
if r in (None, "skip"):
    print("same program"); sys.exit(0)
print(r["text"]); print(r["what"]); print(r["observed"]); sys.exit(1)
'''

REPLAY_LEX = '''#!/usr/bin/env python
import sys; sys.path.insert(0, %(root)r)
from bbverif.atnsmt import lang
lg = lang.Lang()
a = lg.real_tokens(%(s)r); b = lg.real_tokens(%(s2)r)
print(a); print(b); sys.exit(1 if a != b else 0)
'''


def main():
    t = common.tier()
    b = BOUNDS[t]
    rep = common.Report(PID, "model_checking")
    rep.bounds = dict(b)
    rep.rule = ("one case = one solver query: (O1/O2: string length L x boundary position p x inserted length k), (O3: style x L x positions), "
                "(O4: edit x sentence length x position), one skeleton x layout variants (O6), or one lexer rule (O7: no blank inside a non-layout token)")
    rep.assumptions = [
        "strings are over 21-bit code points; lone QUOTE tokens (never part of a valid script) are excluded; the token ending at the insertion point is not a COMMENT",
        "O4 treats precedence predicates as epsilon (language level)",
        "parse-tree equality modulo layout leaves is not decided by E1; O6 covers it for the C02 skeleton family only (values symbolic, layouts concrete)",
        "antlr4 runtime = longest match / first rule on the shipped ATN (C14)",
    ]
    lg = langmod.Lang()
    M = b["M"]
    jobs = []
    for L in range(1, M + 1):
        for p in range(0, L + 1):
            for k in (1, 2, 3):
                if L + k <= M + 3:
                    jobs.append(("lex", ("O1", L, p, k)))
    CM = b["CM"]
    for L in range(1, CM + 1):
        for p in range(0, L + 1):
            for k in (0, 1, 3):
                jobs.append(("lex", ("O2", L, p, k)))
    for (nm, t, _) in lg.lexer_A():
        if t is not None and nm not in LAYOUT_RULES:
            jobs.append(("noblank", ("O7", M + 3, nm)))
    for L in range(1, M + 1):
        jobs.append(("nl", ("cr", L, ())))
        for q1 in range(L):
            jobs.append(("nl", ("crlf", L, (q1,))))
            for q2 in range(q1 + 1, L):
                if L <= CM:
                    jobs.append(("nl", ("crlf", L, (q1, q2))))
        for p in range(0, L + 1):
            if L <= CM:
                jobs.append(("nl", ("tab", L, (p,))))
    N = b["N"]
    for n in range(4, N + 1):
        for q in range(0, n):
            jobs.append(("par", ("insert", n, q)))
        jobs.append(("par", ("append", n, 0)))
        jobs.append(("par", ("remove_final", n, 0)))
        jobs.append(("par", ("prepend", n, 1)))
        jobs.append(("par", ("prepend", n, 3)))
    U.shuffle(jobs, common.seed())
    results = common.pmap(_dispatch, jobs)
    for (kind, job), res in zip(jobs, results):
        if res["result"] != "vacuous":
            rep.count(res["result"] if res["result"] in ("sat", "unsat") else "unknown", res["dt"])
        rep.evaluations += 1
        rep.distinct.add((kind, job))
        name = "%s %r" % (kind, job)
        if res["result"] == "vacuous":
            rep.extra["vacuous_sites"] = rep.extra.get("vacuous_sites", 0) + 1
            rep.distinct.discard((kind, job))
            continue
        if res["result"] == "unsat":
            rep.obligation(name, "holds", solver_s=round(res["dt"], 2))
        elif res["result"] == "sat":
            if kind == "par":
                w1, w2 = res["witness"]
                ok1, _ = lg.real_parse_tokens([x for x in w1 if x != 0])
                ok2, _ = lg.real_parse_tokens([x for x in w2 if x != 0])
                names = [lg.tok_names.get(x, "?") for x in w1], [lg.tok_names.get(x, "?") for x in w2]
                if ok1 and not ok2:
                    rep.obligation(name, "violated", witness=names)
                    key = "O4:%s" % job[0]
                    if job[0] == "remove_final" and _ends_with_array_row(lg, w1):
                        key = "O4:remove_final:last line is an array row"
                    if len(rep.violations) >= U.MAX_REPORTED and not any(common._match(f, key, "") for f in rep.known):
                        continue
                    rep.violation(key, "sentence %r is accepted, but %r (layout edit %s) is rejected by the real parser" % (names[0], names[1], job[0]),
                                  "import sys\nsys.path.insert(0, %r)\nfrom bbverif.atnsmt import lang\nlg = lang.Lang()\na, _ = lg.real_parse_tokens(%r)\nb, e = lg.real_parse_tokens(%r)\nprint(a, b, e)\nsys.exit(1 if a and not b else 0)\n" % (
                                      common.ROOT, [x for x in w1 if x != 0], [x for x in w2 if x != 0]), "o4_%s_%d" % (job[0], len(rep.violations)))
                else:
                    rep.unconfirmed.append({"where": name, "tokens": names})
                    rep.obligation(name, "inconclusive", why="solver witness does not reproduce on the real parser")
            elif kind == "noblank":
                w1 = (res.get("witness") or ("", ""))[0]
                toks = lg.real_tokens(w1)
                bad = [(nm, tx) for (nm, tx) in toks if nm not in LAYOUT_RULES and (" " in tx or "\t" in tx)]
                if bad:
                    rep.obligation(name, "violated", witness=[w1, bad])
                    rep.violation("O7:%s" % job[2], "the real lexer emits a %s token that contains a blank: %r in %r - blanks do not only separate tokens, "
                                  "so one blank and two blanks between the same tokens are lexed differently" % (bad[0][0], bad[0][1], w1),
                                  "import sys\nsys.path.insert(0, %r)\nfrom bbverif.atnsmt import lang\nt = lang.Lang().real_tokens(%r)\nprint(t)\n"
                                  "sys.exit(1 if any(n not in %r and (' ' in x or '\\t' in x) for n, x in t) else 0)\n" % (common.ROOT, w1, LAYOUT_RULES),
                                  "o7_%s" % job[2])
                else:
                    rep.unconfirmed.append({"where": name, "string": w1})
                    rep.obligation(name, "inconclusive", why="solver witness does not reproduce on the real lexer")
            else:
                s, s2 = res["witness"]
                differs, a, bb_ = replay_lex(lg, s, s2)
                if differs:
                    rep.obligation(name, "violated", witness=[s, s2])
                    if len(rep.violations) >= U.MAX_REPORTED:
                        rep.extra["further_candidate_violations_not_reported"] = rep.extra.get("further_candidate_violations_not_reported", 0) + 1
                        continue
                    rep.violation("%s:%s" % (kind, job[0]), "layout edit changes the emitted tokens: %r -> %r gives %r vs %r" % (s, s2, a, bb_),
                                  REPLAY_LEX % {"root": common.ROOT, "s": s, "s2": s2}, "lex_%s_%d" % (job[0], len(rep.violations)))
                else:
                    rep.unconfirmed.append({"where": name, "strings": [s, s2]})
                    rep.obligation(name, "inconclusive", why="solver witness does not reproduce on the real lexer")
            rep.sample({"query": name, "witness": res.get("witness")})
        else:
            rep.obligation(name, "inconclusive", why=res["result"])
    for (kind, job), res in list(zip(jobs, results))[:6]:
        rep.sample({"query": "%s %r" % (kind, job), "result": res["result"], "solver_s": round(res["dt"], 2)})
    o5_scan(rep)
    # O6
    from . import c02, _script
    s2 = c02.gen_specs("quick", common.seed())
    nm = len(c02.META) * len(c02.STMTS)
    specs = s2[:nm:(3 if t == "quick" else 1)] + s2[nm::(25 if t == "quick" else 4)] + [("c18", i) for i in range(len(O6_EXTRA))]
    res6 = U.run_parallel(o6_run, [(t, s, common.seed()) for s in specs])
    U.collect(rep, res6, key_fn=lambda r: "O6 " + str(r["cex"].get("vname")) + ": " + _script.default_key(r),
              replay_fn=lambda r: REPLAY_O6 % {"root": common.ROOT, "spec": r["spec"], "vname": r["cex"]["vname"], "vals": r["cex"]["values"], "seed": common.seed(), "tier": t},
              sample_fn=lambda r: {"O6 script": r["text"], "paths": r["paths"]})
    return rep.finish()


def _ends_with_array_row(lg, w):
    """the sentence (token types, EOF last) ends with an array body: ... ASSIGN NEWLINE (TAB row NEWLINE)+ EOF"""
    NL, TABT, ASSIGN = lg.tok_ids["NEWLINE"], lg.tok_ids["TAB"], lg.tok_ids["ASSIGN"]
    toks = [x for x in w if x != 0]
    if not toks or toks[-1] != NL:
        return False
    # split into lines
    lines, cur = [], []
    for t in toks:
        cur.append(t)
        if t == NL:
            lines.append(cur)
            cur = []
    k = len(lines) - 1
    if not lines[k] or lines[k][0] != TABT:
        return False
    while k >= 0 and lines[k] and lines[k][0] == TABT:
        k -= 1
    return k >= 0 and len(lines[k]) >= 2 and lines[k][-2] == ASSIGN and lg.tok_ids["TYPE_ARRAY"] in lines[k]


def _dispatch(j):
    kind, job = j
    try:
        if kind == "lex":
            return lexer_job(job)
        if kind == "nl":
            return newline_job(job)
        if kind == "noblank":
            return noblank_job(job)
        return parser_job(job)
    except BaseException as e:  # noqa
        import traceback
        return {"job": job, "result": "error: %r %s" % (e, traceback.format_exc()[-400:]), "dt": 0.0}


if __name__ == "__main__":
    sys.exit(main())
