"""C07 - calling an included program equals inlining it with renamed modes.

File layouts (main script + included files, nested directories) are written to a scratch directory with placeholder
literals; the real blackbird.load runs on proxies with the process working directory set to an unrelated place.  The
included program's modes and the call-site modes are solver variables, so the mode renaming is decided for every mode
numbering at once (the reference inlines with the included modes taken in increasing order and forks on that order).
Also: repeated calls, two subroutines, nesting, repeated include lines, templates bound by keyword, mismatched calls.
"""
import os
import shutil
import sys
import tempfile

import numpy as np
import z3

from .. import common
from ..pysym import engine, proxies as P, stubs, terms as T, skel
from ..ref import expr as RX, interp as RI
from . import _script, _util as U, _cmp, c11

PID = "C07"
MOD = "bbverif.checks.c07"

HDR = ["name %s", "version 1.0"]


def inc2(name="inc"):
    return ["name %s" % name, "version 1.0", "", "Sgate(%(f)s) | %(a)s", "BSgate(%(f)s, k=%(i)s) | [%(a)s, %(b)s]", "Vac | %(b)s"]


def inc2_rev(name="incr"):
    # the mode that is used first is not necessarily the smaller one
    return ["name %s" % name, "version 1.0", "", "Vac | %(b)s", "Sgate(%(f)s) | %(a)s", "BSgate | [%(b)s, %(a)s]"]


def inc3(name="inc3"):
    return ["name %s" % name, "version 1.0", "", "G1 | [%(c)s, %(a)s]", "G2(%(f)s) | %(b)s", "G3 | [%(b)s, %(c)s, %(a)s]"]


def tinc(name="tinc"):
    return ["name %s" % name, "version 1.0", "", "Dgate({alpha}, %(f)s) | %(a)s", "Sgate(2*{alpha}+1, phi={beta}) | %(b)s", "BSgate | [%(a)s, %(b)s]"]


LAYOUTS = {
    # name: (files {relpath: lines}, main relpath)
    "once": ({"inc.xbb": inc2(), "main.xbb": ["name main", "version 1.0", 'include "inc.xbb"', "", "Xgate(%(f)s) | %(m)s", "inc | [%(m)s, %(m)s]", "Zgate | %(m)s"]}, "main.xbb"),
    "once_rev": ({"incr.xbb": inc2_rev(), "main.xbb": ["name main", "version 1.0", 'include "incr.xbb"', "", "incr | [%(m)s, %(m)s]"]}, "main.xbb"),
    "twice": ({"inc.xbb": inc2(), "main.xbb": ["name main", "version 1.0", 'include "inc.xbb"', "", "inc | [%(m)s, %(m)s]", "Vac | %(m)s", "inc | [%(m)s, %(m)s]"]}, "main.xbb"),
    "thrice_rev": ({"incr.xbb": inc2_rev(), "main.xbb": ["name main", "version 1.0", 'include "incr.xbb"', "", "incr | [%(m)s, %(m)s]", "incr | (%(m)s, %(m)s)", "incr | %(m)s, %(m)s"]}, "main.xbb"),
    "three_modes": ({"inc3.xbb": inc3(), "main.xbb": ["name main", "version 1.0", 'include "inc3.xbb"', "", "inc3 | [%(m)s, %(m)s, %(m)s]"]}, "main.xbb"),
    "three_modes_twice": ({"inc3.xbb": inc3(), "main.xbb": ["name main", "version 1.0", 'include "inc3.xbb"', "", "inc3 | [%(m)s, %(m)s, %(m)s]", "inc3 | [%(m)s, %(m)s, %(m)s]"]}, "main.xbb"),
    "template": ({"tinc.xbb": tinc(), "main.xbb": ["name main", "version 1.0", 'include "tinc.xbb"', "", "tinc(alpha=%(f)s, beta=%(f)s) | [%(m)s, %(m)s]"]}, "main.xbb"),
    "template_twice": ({"tinc.xbb": tinc(), "main.xbb": ["name main", "version 1.0", 'include "tinc.xbb"', "", "tinc(alpha=%(f)s, beta=%(f)s) | [%(m)s, %(m)s]", "Vac | %(m)s",
                                                           "tinc(beta=%(f)s, alpha=-%(f)s) | [%(m)s, %(m)s]"]}, "main.xbb"),
    "two_subroutines": ({"inc.xbb": inc2(), "incr.xbb": inc2_rev(), "main.xbb": ["name main", "version 1.0", 'include "inc.xbb"', 'include "incr.xbb"', "",
                                                                                    "incr | [%(m)s, %(m)s]", "inc | [%(m)s, %(m)s]", "incr | [%(m)s, %(m)s]"]}, "main.xbb"),
    "repeated_include_lines": ({"inc.xbb": inc2(), "main.xbb": ["name main", "version 1.0", 'include "inc.xbb"', "", 'include "inc.xbb"', "", "inc | [%(m)s, %(m)s]"]}, "main.xbb"),
    "nested": ({"lib/inner.xbb": inc2("inner"), "lib/outer.xbb": ["name outer", "version 1.0", 'include "inner.xbb"', "", "Pgate(%(f)s) | %(a)s", "inner | [%(b)s, %(a)s]"],
                "main.xbb": ["name main", "version 1.0", 'include "lib/outer.xbb"', "", "outer | [%(m)s, %(m)s]", "inner | [%(m)s, %(m)s]"]}, "main.xbb"),
    "nested_depth3": ({"a/b/c.xbb": ["name c", "version 1.0", "", "Cg(%(f)s) | %(a)s"],
                       "a/b.xbb": ["name b", "version 1.0", 'include "b/c.xbb"', "", "c | %(b)s", "Bg | %(b)s"],
                       "a.xbb": ["name a", "version 1.0", 'include "a/b.xbb"', "", "b | %(a)s", "Ag | %(a)s"],
                       "top/main.xbb": ["name main", "version 1.0", 'include "../a.xbb"', "", "a | %(m)s", "a | %(m)s"]}, "top/main.xbb"),
    "nested_template_passthrough": ({"lib/inner.xbb": ["name Inner", "version 1.0", "", "Rgate({a}) | %(a)s", "BSgate({a}-{b}, {b}) | [%(a)s, %(b)s]"],
                                     "lib/outer.xbb": ["name Outer", "version 1.0", 'include "inner.xbb"', "", "Sgate({b}) | %(b)s", "Inner(a={b}, b={c}) | [%(b)s, %(a)s]"],
                                     "main.xbb": ["name main", "version 1.0", 'include "lib/outer.xbb"', "", "Outer(b=%(f)s, c=%(f)s) | [%(m)s, %(m)s]"]}, "main.xbb"),
    "nested_template_swapped": ({"inner.xbb": ["name Inner", "version 1.0", "", "Dgate(2*{x}+{y}, {y}/4) | %(a)s"],
                                 "outer.xbb": ["name Outer", "version 1.0", 'include "inner.xbb"', "", "Inner(x={y}, y={x}) | %(a)s", "Inner(y={y}*2, x={x}) | %(a)s"],
                                 "main.xbb": ["name main", "version 1.0", 'include "outer.xbb"', "", "Outer(x=%(f)s, y=-%(f)s) | %(m)s"]}, "main.xbb"),
    # one library reached through several include chains of the same parse
    "shared_lib_first": ({"lib.xbb": inc2("lib"), "chip.xbb": ["name chip", "version 1.0", 'include "lib.xbb"', "", "Cg(%(f)s) | %(a)s", "lib | [%(b)s, %(a)s]"],
                          "main.xbb": ["name main", "version 1.0", 'include "lib.xbb"', 'include "chip.xbb"', "", "lib | [%(m)s, %(m)s]", "chip | [%(m)s, %(m)s]"]}, "main.xbb"),
    "shared_lib_last": ({"lib.xbb": inc2("lib"), "chip.xbb": ["name chip", "version 1.0", 'include "lib.xbb"', "", "lib | [%(a)s, %(b)s]", "Cg(%(f)s) | %(b)s"],
                         "main.xbb": ["name main", "version 1.0", 'include "chip.xbb"', 'include "lib.xbb"', "", "chip | [%(m)s, %(m)s]", "lib | [%(m)s, %(m)s]"]}, "main.xbb"),
    "diamond": ({"sub/lib.xbb": inc2("lib"), "sub/chipa.xbb": ["name chipa", "version 1.0", 'include "lib.xbb"', "", "lib | [%(a)s, %(b)s]", "Ag | %(a)s"],
                 "sub/chipb.xbb": ["name chipb", "version 1.0", 'include "lib.xbb"', "", "Bg(%(f)s) | %(b)s", "lib | [%(b)s, %(a)s]"],
                 "main.xbb": ["name main", "version 1.0", 'include "sub/chipa.xbb"', 'include "sub/chipb.xbb"', "", "chipa | [%(m)s, %(m)s]", "chipb | [%(m)s, %(m)s]"]}, "main.xbb"),
    "diamond_template": ({"tinc.xbb": tinc(), "ua.xbb": ["name ua", "version 1.0", 'include "tinc.xbb"', "", "tinc(alpha=%(f)s, beta=%(f)s) | [%(a)s, %(b)s]"],
                          "ub.xbb": ["name ub", "version 1.0", 'include "tinc.xbb"', "", "tinc(beta=%(f)s, alpha=%(f)s) | [%(b)s, %(a)s]"],
                          "main.xbb": ["name main", "version 1.0", 'include "ua.xbb"', 'include "ub.xbb"', 'include "tinc.xbb"', "", "ub | [%(m)s, %(m)s]", "ua | [%(m)s, %(m)s]"]}, "main.xbb"),
    # the same call text evaluated in different variable environments (loop variable / re-declared variable in the arguments)
    "template_in_loop": ({"tinc.xbb": tinc(), "main.xbb": ["name main", "version 1.0", 'include "tinc.xbb"', "", "for int m in [1, 4]", "    tinc(alpha=%(f)s, beta=m) | [0, m]"]}, "main.xbb"),
    "template_in_range_loop": ({"tinc.xbb": tinc(), "main.xbb": ["name main", "version 1.0", 'include "tinc.xbb"', "", "float x = %(f)s", "for float t in 1:4", "    tinc(alpha=t*x, beta=2) | [5, 6]"]}, "main.xbb"),
    "template_same_text_redeclared_variable": ({"tinc.xbb": tinc(), "main.xbb": ["name main", "version 1.0", 'include "tinc.xbb"', "", "float x = %(f)s", "tinc(alpha=x, beta=2) | [0, 1]",
                                                                                 "float x = %(f)s", "tinc(alpha=x, beta=2) | [0, 1]", "tinc(alpha=x, beta=2) | [2, 3]"]}, "main.xbb"),
    # several calls of one template whose keyword values are equal under == but differ in kind or in the sign of zero
    # (1 == 1.0 == True, 0 == 0.0 == -0.0 == False): every call is bound to its own values
    "template_calls_equal_values_other_kinds": ({"prep.xbb": ["name Prep", "version 1.0", "", "Fock({n}) | %(a)s", "Rgate({phi}, k={n}) | %(a)s", "Gate(select={s}) | %(b)s"],
                                                 "main.xbb": ["name main", "version 1.0", 'include "prep.xbb"', "", "Prep(n=1, phi=0.0, s=0) | [0, 1]", "Prep(n=1.0, phi=-0.0, s=False) | [0, 1]",
                                                              "Prep(n=True, phi=0, s=0.0) | [2, 3]", "Prep(s=0, phi=0.0, n=1) | [1, 0]"]}, "main.xbb"),
    # a mode listed twice in the call: the arity is the number of modes written, the renaming maps both to the same mode
    "repeated_mode_in_call": ({"inc.xbb": inc2(), "main.xbb": ["name main", "version 1.0", 'include "inc.xbb"', "", "inc | [4, 4]", "Vac | 4"]}, "main.xbb"),
    "bad_arity_repeated_mode": ({"inc.xbb": inc2(), "main.xbb": ["name main", "version 1.0", 'include "inc.xbb"', "", "inc | [4, 4, 5]"]}, "main.xbb"),
    "bad_arity_repeated_mode_three": ({"inc3.xbb": inc3(), "main.xbb": ["name main", "version 1.0", 'include "inc3.xbb"', "", "inc3 | [1, 2, 1, 2]"]}, "main.xbb"),
    "template_param_names_like_array_elements": ({"t.xbb": ["name Sub", "version 1.0", "", "Rgate({w_0_1}) | %(a)s", "BSgate({w_0_1}-{d_10_3}, {phi}) | [%(a)s, %(b)s]"],
                                                  "main.xbb": ["name main", "version 1.0", 'include "t.xbb"', "", "Sub(w_0_1=%(f)s, phi=%(f)s, d_10_3=%(f)s) | [%(m)s, %(m)s]"]}, "main.xbb"),
    "target_and_include": ({"inc.xbb": inc2(), "main.xbb": ["name main", "version 1.0", "target X8 (shots=%(i)s)", 'include "inc.xbb"', "", "inc | [%(m)s, %(m)s]"]}, "main.xbb"),
    # mismatched calls must be refused
    "bad_arity": ({"inc.xbb": inc2(), "main.xbb": ["name main", "version 1.0", 'include "inc.xbb"', "", "inc | [%(m)s, %(m)s, %(m)s]"]}, "main.xbb"),
    "bad_arity_less": ({"inc.xbb": inc2(), "main.xbb": ["name main", "version 1.0", 'include "inc.xbb"', "", "inc | %(m)s"]}, "main.xbb"),
    "args_to_nontemplate": ({"inc.xbb": inc2(), "main.xbb": ["name main", "version 1.0", 'include "inc.xbb"', "", "inc(alpha=%(f)s) | [%(m)s, %(m)s]"]}, "main.xbb"),
    "template_without_args": ({"tinc.xbb": tinc(), "main.xbb": ["name main", "version 1.0", 'include "tinc.xbb"', "", "tinc | [%(m)s, %(m)s]"]}, "main.xbb"),
    "template_wrong_keywords": ({"tinc.xbb": tinc(), "main.xbb": ["name main", "version 1.0", 'include "tinc.xbb"', "", "tinc(alpha=%(f)s, gamma=%(f)s) | [%(m)s, %(m)s]"]}, "main.xbb"),
    "template_missing_keyword": ({"tinc.xbb": tinc(), "main.xbb": ["name main", "version 1.0", 'include "tinc.xbb"', "", "tinc(alpha=%(f)s) | [%(m)s, %(m)s]"]}, "main.xbb"),
}
CWDS = ["elsewhere", "maindir"]
PATHSTYLES = ["absolute", "relative"]


class Sub(dict):
    """%(m)s fresh call-site mode ; %(a)s %(b)s %(c)s the included file's own modes (one symbolic value per letter per file)"""

    def __init__(self, lv, modes):
        self.lv, self.modes = lv, modes
        self.local = {}

    def __getitem__(self, k):
        lv = self.lv
        if k in ("a", "b", "c"):
            if k not in self.local:
                self.local[k] = lv.int()
                if lv.symbolic:
                    self.modes.append(lv.vars[-1][2])
            return self.local[k]
        if k[0] == "m":
            t = lv.int()
            if lv.symbolic:
                self.modes.append(lv.vars[-1][2])    # call-site modes are pairwise distinct as well
            return t
        return {"i": lv.int, "f": lv.float}[k[0]]()


def render(spec, lv):
    layout = spec[0]
    files, main = LAYOUTS[layout]
    out = {}
    pre = []
    hints = []
    for rel in sorted(files):
        modes = []
        sub = Sub(lv, modes)
        out[rel] = "\n".join([l % sub if "%(" in l else l for l in files[rel]]) + "\n"
        if lv.symbolic and len(modes) > 1:
            pre.append(z3.Distinct(modes))
        if lv.symbolic and len(sub.local) > 1:
            # replay steering only: CPython iterates a small int set by value mod 8; pick included modes whose
            # residue order differs from their increasing order (e.g. {8, 1})
            loc = [lv.reg.lookup(t).re for t in sub.local.values()]
            pairs = [z3.And(x < y, x % 8 > y % 8) for x in loc for y in loc if x is not y]
            hints.append([z3.Or(pairs), z3.Distinct([x % 8 for x in loc])])
    render.hints = hints
    return out, main, pre


def write_tree(files, root):
    for rel, text in files.items():
        p = os.path.join(root, rel)
        os.makedirs(os.path.dirname(p), exist_ok=True)
        with open(p, "w") as fh:
            fh.write(text)


def provider(files, lang, base_rel):
    """reference-side file resolution: include paths are relative to the including file"""
    def get(relpath):
        p = os.path.normpath(os.path.join(os.path.dirname(base_rel), relpath))
        if p not in files:
            raise RX.RefError("included file %s does not exist" % p)
        return p, lang.real_tokens_pos(files[p]), provider(files, lang, p)
    return get


def provider_os(lang, base_given):
    """reference-side file resolution through the operating system: an include path is joined to the directory part of the
    path under which the including file was opened, and the OS resolves it (symbolic links, '..' after a link)"""
    def get(relpath):
        given = os.path.join(os.path.dirname(base_given), relpath)
        if not os.path.isfile(given):
            raise RX.RefError("included file %s does not exist" % given)
        with open(given) as fh:
            text = fh.read()
        return given, lang.real_tokens_pos(text), provider_os(lang, given)
    return get


def load_in(bb, root, main, cwd_kind, style, scratch_cwd):
    old = os.getcwd()
    try:
        if cwd_kind == "elsewhere":
            os.chdir(scratch_cwd)
            path = os.path.join(root, main) if style == "absolute" else os.path.relpath(os.path.join(root, main), scratch_cwd)
        else:
            os.chdir(os.path.dirname(os.path.join(root, main)))
            path = os.path.join(root, main) if style == "absolute" else os.path.basename(main)
        return bb.load(path)
    finally:
        os.chdir(old)


def run_spec(spec):
    w = _script.winit()
    bb = w["bb"]
    layout, cwd_kind, style = spec
    out = {"spec": spec, "result": "holds", "paths": 0, "stats": None, "why": None, "cex": None, "funcs": [], "reach": 0}
    lv = skel.Leaves()
    files, main, pre = render(spec, lv)
    hints = list(getattr(render, "hints", []))
    out["text"] = "layout %s (cwd: %s, path: %s)\n" % (layout, cwd_kind, style) + "\n".join("--- %s ---\n%s" % (k, v) for k, v in files.items())
    root = tempfile.mkdtemp(prefix="bbverif_c07_")
    other = tempfile.mkdtemp(prefix="bbverif_cwd_")
    try:
        write_tree(files, root)
        toks = w["lang"].real_tokens_pos(files[main])
        try:
            cases = RI.run_all(lambda forks: RI.Interp(toks, T.Z3Alg, lv.leaf, True, params=None, files=provider(files, w["lang"], main)))
        except RX.RefError as e:
            out.update(result="inconclusive", why="reference: %s" % e)
            return out
        E = engine.Engine(max_paths=3000)
        E.reset_hooks.append(stubs.reset_tables)
        E.base = list(lv.cons) + pre
        doms = [z3.And([z3.BoolVal(True)] + list(rc) + list(it.dom.conds)) for (rc, ro, it) in cases]
        E.base.append(z3.simplify(z3.Or(doms)))
        with U.coverage(out["funcs"]):
            try:
                paths = E.explore(lambda: load_in(bb, root, main, cwd_kind, style, other))
            except engine.PathLimit as e:
                out.update(result="inconclusive", why=str(e), stats=E.stats)
                return out
        out["paths"] = len(paths)
        out["refcases"] = len(cases)
        conc = lambda vals: concrete_check(spec, vals, w)  # noqa
        for pth in paths:
            if pth.kind == "abort":
                out.update(result="inconclusive", why="abort: %s" % pth.value)
                continue
            for (rconds, routcome, it) in cases:
                joint = list(rconds) + list(it.dom.conds)
                r0, _ = E.query(pth, z3.BoolVal(True), extra=joint)
                if r0 == "unsat":
                    continue
                if r0 != "sat":
                    out.update(result="inconclusive", why="solver %s" % r0)
                    continue
                out["reach"] += 1
                cands = []
                if routcome[0] == "reject":
                    if pth.kind == "ok":
                        cands.append(("a program is returned although the call must be refused (%s)" % routcome[1].kind, z3.BoolVal(True)))
                elif pth.kind == "exc":
                    cands.append(("raises %s: %s" % (type(pth.value).__name__, str(pth.value)[:160]), z3.BoolVal(True)))
                else:
                    c = _cmp.Cmp(True, it.symfactory)
                    try:
                        c.program(pth.value, routcome[1], ("meta", "ops", "modes"))
                    except engine.Abort as e:
                        out.update(result="inconclusive", why="abort in comparison: %s" % e)
                        continue
                    for desc, cond in c.out:
                        cands.append((desc, z3.BoolVal(True) if cond is True else E.specialize(pth, cond)))
                for desc, cond in cands:
                    pj = engine.Path(pth.pc + joint, pth.decisions, pth.kind, pth.value, pth.notes)
                    res, cex = U.find_replayable(E, pj, cond, lv, conc, hints=hints)
                    if res == "unsat":
                        continue
                    if res == "unknown":
                        out.update(result="inconclusive", why="solver unknown: " + desc)
                        continue
                    if res == "unconfirmed":
                        out.setdefault("unconfirmed", []).append({"what": desc, "text": out["text"][:300]})
                        continue
                    cex["symbolic_what"] = desc
                    out.update(result="violation", cex=cex, stats=E.stats)
                    return out
        out["stats"] = E.stats
        if out["reach"] == 0 and out["result"] == "holds":
            out.update(result="inconclusive", why="vacuous")
        if out["result"] in ("holds", "inconclusive"):
            U.validate_native(E, paths, lv, conc, out, nmax=1)
        return out
    finally:
        shutil.rmtree(root, ignore_errors=True)
        shutil.rmtree(other, ignore_errors=True)


def concrete_check(spec, vals, w=None):
    w = w or _script.plain_env()
    bb = w["bb"]
    layout, cwd_kind, style = spec
    lv = skel.Leaves(values=vals)
    files, main, _ = render(spec, lv)
    base = {"values": vals, "text": "layout %s (cwd: %s, path: %s)\n" % (layout, cwd_kind, style) + "\n".join("--- %s ---\n%s" % (k, v) for k, v in files.items())}
    toks = w["lang"].real_tokens_pos(files[main])
    T.PyAlg.overflow = False
    T.PyAlg.fscale = 0.0
    try:
        cases = RI.run_all(lambda forks: RI.Interp(toks, T.PyAlg, lv.leaf, False, params=None, files=provider(files, w["lang"], main)))
    except Exception:  # noqa
        return "skip"
    rconds, routcome, it = cases[0]
    if not it.dom.ok:
        return "skip"
    root = tempfile.mkdtemp(prefix="bbverif_c07_")
    other = tempfile.mkdtemp(prefix="bbverif_cwd_")
    import blackbird.auxiliary as aux
    exc = ip = None
    try:
        write_tree(files, root)
        aux._VAR.clear()
        aux._PARAMS.clear()
        try:
            with np.errstate(all="ignore"):
                ip = load_in(bb, root, main, cwd_kind, style, other)
        except Exception as e:  # noqa
            exc = e
    finally:
        aux._VAR.clear()
        aux._PARAMS.clear()
        shutil.rmtree(root, ignore_errors=True)
        shutil.rmtree(other, ignore_errors=True)
    if routcome[0] == "reject":
        if exc is None:
            return dict(base, what="a program is returned although the call must be refused (%s)" % routcome[1].kind,
                        observed="program with %d operations" % len(ip.operations), expected="an exception")
        return None
    if exc is not None:
        return dict(base, what="raises %s" % type(exc).__name__, observed="%s: %s" % (type(exc).__name__, str(exc)[:300]), expected="the inlined program")
    c = _cmp.Cmp(False, it.symfactory)
    c.program(ip, routcome[1], ("meta", "ops", "modes"))
    if not c.out:
        return None
    got = [(o["op"], o["modes"]) for o in ip.operations]
    want = [(o["op"], o["modes"]) for o in routcome[1].operations]
    return dict(base, what=c.out[0][0], observed="; ".join(d for d, _ in c.out[:3]) + "\n got  %r" % got, expected="inlining with modes in increasing order:\n want %r" % want)


# ----------------------------------------------------------------------------- concrete multi-step sequences
INC_A = "name inc\nversion 1.0\n\nSgate(0.5) | 0\nBSgate(0.25) | [0, 1]\n"
INC_B = "name inc\nversion 1.0\n\nRgate(1.5) | 1\nVac | 0\nCZgate | [1, 0]\n"
INC_3 = "name inc\nversion 1.0\n\nG | [2, 0, 1]\n"
TPL_1 = "name tpl\nversion 1.0\n\nDgate({alpha}) | 0\n"
TPL_2 = "name tpl\nversion 1.0\n\nDgate({alpha}, {beta}) | 0\n"
MAIN_INC = 'name main\nversion 1.0\ninclude "inc.xbb"\n\ninc | [4, 9]\nVac | 2\n'
MAIN_LIB = 'name main\nversion 1.0\ninclude "lib/inc.xbb"\n\ninc | [9, 4]\n'
MAIN_TPL = 'name main\nversion 1.0\ninclude "tpl.xbb"\n\ntpl(alpha=0.3) | 5\n'
# steps: ('write', relpath, text) ('chdir', reldir) ('load', path relative to the current directory or 'abs:'+relpath)
SEQUENCES = {
    "two_projects_same_relative_layout": [("write", "p1/inc.xbb", INC_A), ("write", "p1/main.xbb", MAIN_INC), ("write", "p2/inc.xbb", INC_B), ("write", "p2/main.xbb", MAIN_INC),
                                          ("chdir", "p1"), ("load", "main.xbb"), ("chdir", "p2"), ("load", "main.xbb"), ("chdir", "p1"), ("load", "main.xbb")],
    "two_projects_nested_dirs": [("write", "p1/lib/inc.xbb", INC_A), ("write", "p1/main.xbb", MAIN_LIB), ("write", "p2/lib/inc.xbb", INC_B), ("write", "p2/main.xbb", MAIN_LIB),
                                 ("chdir", "p1"), ("load", "main.xbb"), ("chdir", "p2"), ("load", "main.xbb"), ("chdir", "."), ("load", "p1/main.xbb"), ("load", "abs:p2/main.xbb")],
    "include_rewritten_between_loads": [("write", "inc.xbb", INC_A), ("write", "main.xbb", MAIN_INC), ("chdir", "."), ("load", "abs:main.xbb"), ("write", "inc.xbb", INC_B),
                                        ("load", "abs:main.xbb"), ("load", "main.xbb")],
    "arity_changes_between_loads": [("write", "inc.xbb", INC_A), ("write", "main.xbb", MAIN_INC), ("chdir", "."), ("load", "main.xbb"), ("write", "inc.xbb", INC_3), ("load", "main.xbb"),
                                    ("write", "inc.xbb", INC_B), ("load", "main.xbb")],
    # '..' after a directory that is a symbolic link: the operating system goes to the parent of the link's *target*
    "dotdot_after_symlinked_directory": [("write", "real/proj/main.xbb", 'name main\nversion 1.0\ninclude "../lib/inc.xbb"\n\ninc | [4, 9]\n'), ("write", "real/lib/inc.xbb", INC_A),
                                         ("write", "lib/inc.xbb", INC_B), ("symlink", "proj", "real/proj"), ("chdir", "."), ("load", "proj/main.xbb"), ("load", "abs:proj/main.xbb"),
                                         ("load", "proj/../proj/main.xbb"), ("write", "job.xbb", 'name decoy\nversion 1.0\n\nVac | 7\n'), ("write", "real/job.xbb", MAIN_LIB.replace("lib/inc", "lib/inc")),
                                         ("load", "proj/../job.xbb"), ("chdir", "proj"), ("load", "main.xbb"), ("load", "../job.xbb")],
    "include_through_symlinked_directory": [("write", "v1/ops.xbb", INC_A), ("write", "v2/ops.xbb", INC_B), ("write", "ops.xbb", INC_3), ("symlink", "current", "v2"),
                                            ("write", "main.xbb", 'name main\nversion 1.0\ninclude "current/ops.xbb"\n\nops | [1, 2]\n'.replace("ops |", "inc |")),
                                            ("write", "main2.xbb", 'name main\nversion 1.0\ninclude "current/../v1/ops.xbb"\n\ninc | [3, 5]\n'),
                                            ("write", "v2/sub/x.xbb", "name x\nversion 1.0\n\nVac | 0\n"), ("symlink", "deep", "v2/sub"),
                                            ("write", "main3.xbb", 'name main\nversion 1.0\ninclude "deep/../ops.xbb"\n\ninc | [3, 5]\n'),
                                            ("chdir", "."), ("load", "main.xbb"), ("load", "main2.xbb"), ("load", "main3.xbb"), ("load", "abs:main3.xbb")],
    "template_keywords_change_between_loads": [("write", "tpl.xbb", TPL_1), ("write", "main.xbb", MAIN_TPL), ("chdir", "."), ("load", "main.xbb"), ("write", "tpl.xbb", TPL_2), ("load", "main.xbb"),
                                               ("write", "tpl.xbb", TPL_1), ("load", "abs:main.xbb")],
}


def sequence_case(name, w=None):
    """every load of the sequence (one process, working directory changing) vs the reference on the files as they are then"""
    import blackbird
    import blackbird.auxiliary as aux
    from ..atnsmt import lang as langmod
    lg = (w or {}).get("lang") or langmod.Lang()
    root = tempfile.mkdtemp(prefix="bbverif_c07seq_")
    old = os.getcwd()
    files = {}
    lv = skel.Leaves(values=[])
    nload = 0
    try:
        for st in SEQUENCES[name]:
            if st[0] == "write":
                files[st[1]] = st[2]
                write_tree({st[1]: st[2]}, root)
            elif st[0] == "chdir":
                os.chdir(os.path.join(root, st[1]))
            elif st[0] == "symlink":
                os.makedirs(os.path.dirname(os.path.join(root, st[1])), exist_ok=True)
                os.symlink(st[2], os.path.join(root, st[1]), target_is_directory=True)
            else:
                nload += 1
                path = st[1]
                if path.startswith("abs:"):
                    arg = os.path.join(root, path[4:])
                else:
                    arg = path
                given = os.path.join(os.getcwd(), arg)
                with open(given) as fh:
                    toks = lg.real_tokens_pos(fh.read())
                cases = RI.run_all(lambda forks: RI.Interp(toks, T.PyAlg, lv.leaf, False, params=None, files=provider_os(lg, given)))
                routcome = cases[0][1]
                aux._VAR.clear()
                aux._PARAMS.clear()
                exc = ip = None
                try:
                    ip = blackbird.load(arg)
                except Exception as e:  # noqa
                    exc = e
                base = {"text": "sequence %s, load number %d: load(%r) with cwd %s" % (name, nload, arg, os.path.relpath(os.getcwd(), root)), "values": [name]}
                if routcome[0] == "reject":
                    if exc is None:
                        return dict(base, what="a program is returned although the call must be refused (%s)" % routcome[1].kind,
                                    observed=repr([(o["op"], o["modes"]) for o in ip.operations]), expected="an exception")
                    continue
                if exc is not None:
                    return dict(base, what="raises %s" % type(exc).__name__, observed="%s: %s" % (type(exc).__name__, str(exc)[:200]), expected="the inlined program")
                c = _cmp.Cmp(False, cases[0][2].symfactory)
                c.program(ip, routcome[1], ("meta", "ops", "modes"))
                if c.out:
                    return dict(base, what=c.out[0][0], observed="; ".join(d for d, _ in c.out[:3]) + " got %r" % [(o["op"], o["modes"]) for o in ip.operations],
                                expected="%r" % [(o["op"], o["modes"]) for o in routcome[1].operations])
        return None
    finally:
        os.chdir(old)
        shutil.rmtree(root, ignore_errors=True)


def run_sequence(name):
    out = {"spec": ("seq", name), "result": "holds", "paths": 1, "stats": None, "funcs": [], "reach": 1, "validated": len([s for s in SEQUENCES[name] if s[0] == "load"]),
           "text": "concrete sequence %s" % name, "name": "sequence " + name}
    r = sequence_case(name)
    if r:
        r["symbolic_what"] = r["what"]
        out.update(result="violation", cex=r)
    return out


REPLAY_SEQ = '''#!/usr/bin/env python
import sys; sys.path.insert(0, %(root)r)
from bbverif.checks import c07
r = c07.sequence_case(%(name)r)
if r is None:
    print("every load as inlined"); sys.exit(0)
print(r["text"]); print("what    :", r["what"]); print("observed:", r["observed"]); print("expected:", r["expected"]); sys.exit(1)
'''


REPLAY = '''#!/usr/bin/env python
# C07 replay: writes the files to a scratch directory, chdirs as described, loads the main script with the real
# blackbird.load and compares with the reference inlining.
import sys; sys.path.insert(0, %(root)r)
from bbverif.checks import c07
r = c07.concrete_check(%(spec)r, %(vals)r)
if r in (None, "skip"):
    print("as inlined"); sys.exit(0)
print(r["text"]); print("what    :", r["what"]); print("observed:", r["observed"]); print("expected:", r["expected"]); sys.exit(1)
'''


def gen_specs(tier, seed):
    specs = []
    for layout in LAYOUTS:
        specs.append((layout, "elsewhere", "absolute"))
        if tier == "thorough" or layout in ("once", "nested", "nested_depth3", "template_twice"):
            specs.append((layout, "elsewhere", "relative"))
            specs.append((layout, "maindir", "relative"))
            specs.append((layout, "maindir", "absolute"))
    return specs


def finding_key(r):
    return str(r["spec"][0]) + (":" + r["spec"][1] if r["spec"][0] == "seq" else "") + ": " + _script.default_key(r)


def main():
    t = common.tier()
    rep = common.Report(PID, "model_checking")
    rep.rule = ("one case = one file layout (main + included files) x working directory x path style, loaded symbolically with all mode numbers "
                "(of the included programs and of the call sites) and argument values as solver variables")
    rep.bounds = {"layouts": len(LAYOUTS), "modes per included program": "<=3", "calls per subroutine": "<=3", "nesting depth": "<=3"}
    rep.assumptions = [
        "files are real files in a scratch directory; the process working directory is an unrelated directory (or the main file's), path resolution is observed, not solved",
        "modes of one included file are pairwise distinct (precondition); the reference forks on their increasing order",
        "multi-step sequences (two projects with the same relative layout loaded after chdir, include files rewritten between loads) are concrete runs in one process",
        "symbolic modes have a constant hash: a Python set of them iterates in insertion order, which stands for 'some order other than increasing'",
    ]
    specs = gen_specs(t, common.seed())
    results = U.run_parallel(run_spec, specs) + [run_sequence(n) for n in SEQUENCES]
    U.collect(rep, results, key_fn=finding_key,
              replay_fn=lambda r: (REPLAY_SEQ % {"root": common.ROOT, "name": r["spec"][1]}) if r["spec"][0] == "seq" else
              REPLAY % {"root": common.ROOT, "spec": r["spec"], "vals": r["cex"]["values"]},
              sample_fn=lambda r: {"case": r["text"][:500], "paths": r["paths"], "reference_cases": r.get("refcases")})
    return rep.finish()


if __name__ == "__main__":
    sys.exit(main())
