"""C13 - read-only operations leave programs unchanged; instances are independent.

One inductive step: if every listed operation maps an arbitrary program to an observably identical one, every sequence
does.  Programs come from loading skeleton scripts with symbolic values; for each operation o in {dumps, template call,
to_DiGraph, match_template (both roles), attribute reads} a deep snapshot (structure + z3 terms + key sets + dumps text)
is taken before and after and compared on every path.  Independence: identity walk over the mutable containers of a
template and two of its instances, and a mutation of every container of one instance must leave the others' snapshots
unchanged.
"""
import copy
import sys

import numpy as np
import z3

from .. import common
from ..pysym import engine, proxies as P, stubs, terms as T, skel
from . import _script, _util as U, _snap, c11

PID = "C13"
MOD = "bbverif.checks.c13"

SCRIPTS = [
    ["name p1", "version 1.0", "", "Vac | %(m)s", "Dgate(%(f)s) | %(m)s"],
    ["name p2", "version 1.0", "target X8 (shots=%(i)s)", "", "BSgate | [%(m)s, %(m)s]", "Vac | %(m)s", "MeasureFock | %(m)s"],
    ["name p3", "version 1.0", "", "Sgate(%(f)s, phi=%(f)s) | %(m)s", "Gate(vals=[%(i)s, %(f)s], s=\"txt\", b=True) | %(m)s", "Vac | %(m)s"],
    ["name p4", "version 1.0", "", "float array A =", "    %(f)s, %(f)s", "    %(f)s, %(f)s", "Interferometer(A) | [%(m)s, %(m)s]", "Vac | %(m)s"],
    ["name p5", "version 1.0", "", "MeasureX | 0", "Dgate(q0*2, %(f)s) | 1", "Zgate(k=q0+q1) | 2", "Vac | 3"],
    ["name p6", "version 1.0", "", "Dgate({a}, %(f)s) | %(m)s", "Vac | %(m)s", "Sgate(2*{a}+1, phi={b}) | %(m)s"],
    ["name p7", "version 1.0", "", "float array A =", "    {a}, %(f)s", "    %(f)s, {b}", "Gate(A) | %(m)s", "Vac | %(m)s", "float x = {a}*2", "Rgate(x) | %(m)s"],
    ["name p8", "version 1.0", "type tdm (temporal_modes=%(i)s)", "", "int array p0 =", "    %(i)s, %(i)s", "Gate(p0, %(f)s) | %(m)s", "Vac | %(m)s"],
    ["name p9", "version 1.0", "", "for int i in [%(m)s, %(m)s]", "    Vac | i", "    Dgate(%(f)s) | i"],
    ["name p11", "version 1.0", "", "float array U =", "    %(f)s, %(f)s", "    %(f)s, %(f)s", "int array K =", "    %(i)s, %(i)s", "Interferometer(U) | [%(m)s, %(m)s]", "Dgate({a}, k=K) | %(m)s", "Sgate({a}*2) | %(m)s"],
    ["name p12", "version 1.0", "target X8 (phases=[%(i)s, %(i)s, %(f)s], names=[\"a\", \"b\"])", "type tdm (shifts=[%(i)s, %(i)s], copies=%(i)s)", "", "Dgate({a}, k=[%(f)s, %(f)s]) | %(m)s", "Vac | %(m)s"],
    ["name p10", "version 1.0", "", "complex c = %(c)s", "Zgate(c, %(c)s) | %(m)s", "Vac | [%(m)s, %(m)s]"],
]
def _edit_api_plain(prog):
    """a loaded program extended by hand, the way API users assemble operations: SymPy expressions over names that look like
    registers (not wrapped in a transform), tuple modes, NumPy scalars"""
    import sympy
    q0, q1 = sympy.Symbol("q0"), sympy.Symbol("q1")
    prog._operations.append({"op": "Xgate", "args": [sympy.sqrt(2) * q0, 0.5], "kwargs": {"k": q1 - q0}, "modes": [7]})
    prog._operations.append({"op": "Ygate", "args": [np.float64(0.25)], "kwargs": {"n": np.int64(3), "lst": [1, 2.5]}, "modes": (8, 9)})
    prog._operations.append({"op": "Zgate", "modes": [7]})
    return prog


def _edit_api_template(prog):
    """a loaded template extended by hand with a further parameter"""
    import sympy
    g = sympy.Symbol("gamma")
    prog._parameters.append(g)
    prog._operations.append({"op": "Ygate", "args": [g * 2, np.float64(0.25)], "kwargs": {"n": np.int64(3), "lst": [g, 1, 2.5]}, "modes": (8, 9)})
    prog._operations.append({"op": "Zgate", "modes": [8]})
    return prog


EDITS = {12: _edit_api_plain, 13: _edit_api_template}
SCRIPTS += [
    ["name e1", "version 1.0", "", "MeasureX | 0", "Dgate(%(f)s) | %(m)s"],
    ["name e2", "version 1.0", "", "Dgate({a}, %(f)s) | %(m)s", "Vac | %(m)s"],
    ["name p14", "version 1.0", "type tdm (temporal_modes=%(i)s)", "", "int array p0 =", "    %(i)s, %(i)s", "float array p12 =", "    %(f)s, %(f)s", "float array B =", "    %(f)s, %(f)s",
     "Gate(p0, {a}) | %(m)s", "Rgate(p12, k=B) | %(m)s", "Sgate({a}*2) | %(m)s"],
    # an array that as a whole is one array-valued parameter (instantiated with one ndarray / nested list)
    ["name p15", "version 1.0", "", "float array A[2, 2] =", "    {U}", "Interferometer(A) | [%(m)s, %(m)s]", "Dgate({b}, k=A) | %(m)s", "Vac | %(m)s"],
    ["name p16", "version 1.0", "target X8", "type tdm", "", "complex array W[1, 3] =", "    {w}", "float array B =", "    %(f)s, {b}", "Gate(W, B) | %(m)s"],
    # several features in one place: a tdm template whose p-arrays hold parameters (as elements and as a whole) next to a numeric p-array
    ["name p17", "version 1.0", "type tdm (temporal_modes=%(i)s)", "", "float array p0 =", "    {a}, %(f)s, {b}", "float array p1[1, 2] =", "    {w}", "int array p2 =", "    %(i)s, %(i)s",
     "Rgate(p0) | %(m)s", "Gate(p1, k=p2) | %(m)s", "Dgate({a}, p2) | %(m)s"],
]
OPS = ["dumps", "to_DiGraph", "attributes", "call", "match_as_template", "match_as_program", "dumps_twice", "graph_then_dumps"]


def gen(spec, lv):
    modes = []
    sub = c11.Sub(lv, modes)
    lines = [l % sub if "%(" in l else l for l in SCRIPTS[spec[0]]]
    pre = [z3.Distinct(modes)] if lv.symbolic and len(modes) > 1 else []
    return {"text": "\n".join(lines) + "\n", "pre": pre}


BASIC = ["dumps", "to_DiGraph", "attributes", "call", "match_as_template"]


def gen_specs(tier, seed):
    specs = [(i, op) for i in range(len(SCRIPTS)) for op in OPS]
    if tier == "thorough":
        # every ordered pair / some triples of read-only operations (sequences, beyond the single inductive step)
        import itertools
        for i in range(len(SCRIPTS)):
            for a, b in itertools.product(BASIC, repeat=2):
                specs.append((i, a + "+" + b))
            for a, b, c in (("to_DiGraph", "call", "dumps"), ("call", "call", "to_DiGraph"), ("match_as_template", "dumps", "call"), ("attributes", "to_DiGraph", "match_as_template")):
                specs.append((i, a + "+" + b + "+" + c))
    return specs


def call_values(prog, off, shared=None):
    """keyword values for an instantiation: scalars for plain parameters, ONE ndarray per whole-array parameter (names
    base_i_j).  `shared`: dict of ndarray objects to pass again (the same objects handed to a second instantiation)"""
    import re
    names = sorted(prog.parameters)
    whole = {}
    for n in names:
        m = re.fullmatch(r"(.+)_(\d+)_(\d+)", n)
        if m and ("%s_0_0" % m.group(1)) in prog.parameters:
            b = m.group(1)
            r, c = whole.get(b, (0, 0))
            whole[b] = (max(r, int(m.group(2)) + 1), max(c, int(m.group(3)) + 1))
    kw = {}
    for k, n in enumerate(names):
        if any(n.startswith(b + "_") for b in whole):
            continue
        kw[n] = off + k
    for b, (r, c) in whole.items():
        if shared is not None and b in shared:
            kw[b] = shared[b]
        else:
            kw[b] = off + 0.125 + np.arange(r * c, dtype=float).reshape(r, c)
    return kw


def snap(prog, bb):
    s0 = _snap.program(prog)
    txt = bb.dumps(prog)
    s1 = _snap.program(prog)
    return s0, txt, s1


def apply_op(op, prog, bb, symbolic, pvals):
    from blackbird.utils import to_DiGraph, match_template
    if "+" in op:
        for part in op.split("+"):
            apply_op(part, prog, bb, symbolic, pvals)
        return
    if op in ("dumps", "dumps_twice"):
        bb.dumps(prog)
        if op == "dumps_twice":
            bb.dumps(prog)
    elif op == "to_DiGraph":
        to_DiGraph(prog)
    elif op == "graph_then_dumps":
        to_DiGraph(prog)
        bb.dumps(prog)
        to_DiGraph(prog)
    elif op == "attributes":
        for a in ("name", "version", "modes", "target", "programtype", "operations", "parameters", "variables"):
            getattr(prog, a)
        prog.is_template()
        len(prog)
    elif op == "call":
        if prog.is_template():
            prog(**{n: pvals(n) for n in prog.parameters})
            if not symbolic:
                prog(**call_values(prog, 0.75))
    elif op == "match_as_template":
        if prog.is_template():
            inst = prog(**call_values(prog, 0.5))
            match_template(prog, inst)
    elif op == "match_as_program":
        pass


def run_spec(spec):
    w = _script.winit()
    bb = w["bb"]
    si, op = spec
    out = {"spec": spec, "result": "holds", "paths": 0, "stats": None, "why": None, "cex": None, "funcs": [], "reach": 0}
    concrete = "match" in op
    if concrete:
        r = concrete_check(spec, None, w)
        out["text"] = "concrete structure run: %s on script %d" % (op, si)
        out["paths"] = 1
        out["validated"] = 1
        out["reach"] = 1
        if isinstance(r, dict):
            r["symbolic_what"] = r["what"]
            out.update(result="violation", cex=r)
        return out
    lv = skel.Leaves()
    g = gen(spec, lv)
    text = g["text"]
    out["text"] = "%s on:\n%s" % (op, text)
    E = engine.Engine(max_paths=3000)
    E.reset_hooks.append(stubs.reset_tables)
    E.base = list(lv.cons) + list(g["pre"])

    def run():
        prog = bb.loads(text)
        if si in EDITS:
            prog = EDITS[si](prog)
        try:
            a0, t0, a1 = snap(prog, bb)
        except engine.Abort:
            raise
        except Exception:  # noqa: a program that cannot be serialised at all is C01/C09's subject
            return None
        apply_op(op, prog, bb, True, lambda n: P.SNum(T.V("float", z3.Real("pv_" + n)), float))
        b0, t2, b1 = snap(prog, bb)
        return (a0, t0, a1, b0, t2, b1)

    with U.coverage(out["funcs"]):
        try:
            paths = E.explore(run)
        except engine.PathLimit as e:
            out.update(result="inconclusive", why=str(e), stats=E.stats)
            return out
    out["paths"] = len(paths)
    for pth in paths:
        if pth.kind == "abort":
            out.update(result="inconclusive", why="abort: %s" % pth.value)
            continue
        out["reach"] += 1
        cands = []
        if pth.kind == "exc":
            # an exception of the operation itself is not C13's subject unless the program was changed; re-run concretely decides
            cands.append(("raises %s: %s" % (type(pth.value).__name__, str(pth.value)[:120]), z3.BoolVal(True)))
        else:
            if pth.value is None:
                out["skipped_unserialisable"] = out.get("skipped_unserialisable", 0) + 1
                continue
            a0, t0, a1, b0, t2, b1 = pth.value
            for where, cond in _snap.diff(a0, a1, "content before/after dumps"):
                cands.append((where, cond))
            for where, cond in _snap.diff(a1, b0, "content before/after %s" % op):
                cands.append((where, cond))
            if t0 != t2:
                cands.append(("serialisation before/after %s differs" % op, True))
        for desc, cond in cands:
            c = z3.BoolVal(True) if cond is True else cond
            res, cex = U.find_replayable(E, pth, c, lv, lambda vals: concrete_check(spec, vals, w))
            if res == "unsat":
                continue
            if res == "unknown":
                out.update(result="inconclusive", why="solver unknown")
                continue
            if res == "unconfirmed":
                out.setdefault("unconfirmed", []).append({"what": desc, "text": text})
                continue
            cex["symbolic_what"] = desc
            out.update(result="violation", cex=cex, stats=E.stats)
            return out
    out["stats"] = E.stats
    if out["result"] in ("holds", "inconclusive"):
        U.validate_native(E, paths, lv, lambda vals: concrete_check(spec, vals, w), out, nmax=1)
    return out


def concrete_check(spec, vals, w=None):
    """native run: snapshot/dumps before and after the operation; independence of instances.  dict on mismatch."""
    import blackbird
    import blackbird.auxiliary as aux
    from blackbird.utils import match_template
    si, op = spec
    lv0 = skel.Leaves()
    gen(spec, lv0)
    if vals is None:
        vals = [(0.5 + 0.25 * i if k == "float" else 2 + i) for i, (_, k, _) in enumerate(lv0.vars)]
    lv = skel.Leaves(values=vals)
    text = gen(spec, lv)["text"]
    base = {"text": "%s on:\n%s" % (op, text), "values": vals}
    aux._VAR.clear()
    aux._PARAMS.clear()
    try:
        prog = blackbird.loads(text)
        if si in EDITS:
            prog = EDITS[si](prog)
    except Exception:  # noqa
        return "skip"
    try:
        a0, t0, a1 = snap(prog, blackbird)
    except Exception as e:  # noqa: serialisation defects are C01/C09's subject
        return "skip"
    other = None
    try:
        if op == "match_as_program":
            # the program under test is the second argument of match_template
            if prog.is_template():
                inst = prog(**call_values(prog, 0.5))
                i0, it0, i1 = snap(inst, blackbird)
                match_template(prog, inst)
                j0, it2, j1 = snap(inst, blackbird)
                if _snap.diff(i1, j0) or it0 != it2:
                    return dict(base, what="match_template changed its program argument", observed=it2, expected=it0)
        else:
            apply_op(op, prog, blackbird, False, lambda n: 0.75)
    except Exception as e:  # noqa
        pass
    try:
        b0, t2, b1 = snap(prog, blackbird)
    except Exception as e:  # noqa
        return dict(base, what="after %s the program cannot be serialised: %s" % (op, type(e).__name__), observed=repr(e), expected=t0)
    d = _snap.diff(a0, a1, "dumps") + _snap.diff(a1, b0, op)
    if d:
        return dict(base, what="%s changed the program: %s" % (op, d[0][0]), observed="; ".join(x[0] for x in d[:3]), expected="unchanged content")
    if t0 != t2:
        return dict(base, what="%s changed the serialisation" % op, observed=t2, expected=t0)
    # independence of instances
    if prog.is_template():
        kw1 = call_values(prog, 0.5)
        arrs = {k: v for k, v in kw1.items() if isinstance(v, np.ndarray)}
        I1 = prog(**kw1)
        I2 = prog(**call_values(prog, 1.5))
        # the same value objects handed to two instantiations (array-valued parameters are mutable objects of the caller)
        I3 = prog(**kw1)
        I4 = prog(**{k: (v.tolist() if isinstance(v, np.ndarray) else v) for k, v in kw1.items()})
        ids = [_snap.mutable_ids(x) for x in (prog, I1, I2, I3, I4)]
        for (x, y, nm) in ((0, 1, "template/instance"), (0, 2, "template/instance"), (1, 2, "two instances"), (1, 3, "two instances made from the same argument objects"),
                           (0, 3, "template/instance"), (1, 4, "two instances"), (3, 4, "two instances")):
            both = set(ids[x]) & set(ids[y])
            if both:
                return dict(base, what="%s share mutable state" % nm, observed=repr(sorted(type(ids[x][k]).__name__ for k in both)), expected="disjoint")
        for b, a in arrs.items():
            for x in (1, 3):
                if id(a) in ids[x]:
                    return dict(base, what="an instance holds the caller's own array object passed for parameter %s" % b, observed="same object", expected="a copy")
        arrs0 = {b: a.copy() for b, a in arrs.items()}
        sT, sI2 = _snap.program(prog), _snap.program(I2)
        sI3, sI4 = _snap.program(I3), _snap.program(I4)
        for obj in list(ids[1].values()):
            try:
                if isinstance(obj, dict):
                    obj["__mutated__"] = 1
                elif isinstance(obj, list):
                    obj.append("__mutated__")
                elif isinstance(obj, set):
                    obj.add(-99)
                elif isinstance(obj, np.ndarray) and obj.size:
                    obj.flat[0] = -99
            except Exception:  # noqa
                pass
        if _snap.diff(sT, _snap.program(prog)) or _snap.diff(sI2, _snap.program(I2)) or _snap.diff(sI3, _snap.program(I3)) or _snap.diff(sI4, _snap.program(I4)):
            return dict(base, what="mutating an instance altered the template or another instance", observed="snapshot changed", expected="unchanged")
        for b, a in arrs.items():
            if not np.array_equal(a, arrs0[b]):
                return dict(base, what="mutating an instance altered the array the caller passed for parameter %s" % b, observed=repr(a), expected=repr(arrs0[b]))
    return None


REPLAY = '''#!/usr/bin/env python
# C13 replay: loads the script natively, applies the operation, compares content snapshot and dumps() text before/after.
import sys; sys.path.insert(0, %(root)r)
from bbverif.checks import c13
r = c13.concrete_check(%(spec)r, %(vals)r)
if r in (None, "skip"):
    print("program unchanged"); sys.exit(0)
print(r["text"]); print("what    :", r["what"]); print("observed:", r["observed"]); print("expected:", r["expected"]); sys.exit(1)
'''


def main():
    t = common.tier()
    rep = common.Report(PID, "model_checking")
    rep.rule = ("one case = (program skeleton, operation): content snapshot and dumps text before/after the operation compared on every symbolic path; "
                "match_template cases and the instance-independence walk are concrete-structure runs (reported as such)")
    rep.bounds = {"program skeletons": len(SCRIPTS), "operations": OPS, "sequences": "single operations (inductive step) + two fixed 2-3 step sequences",
                  "API route": "two of the skeletons are extended by hand after loading (SymPy expressions over register-like names, a further parameter, tuple modes, NumPy scalars)"}
    rep.assumptions = [
        "observable content = name, version, target, type, operations (keys and values), variables, parameters, modes, len, dumps() text",
        "match_template runs use concrete values (SymPy solve); the violations C13 targets are structural",
        "an arbitrary program is represented by the skeleton family (values symbolic); induction over sequences relies on 'unchanged' being total on it",
    ]
    specs = gen_specs(t, common.seed())
    results = U.run_parallel(run_spec, specs)
    U.collect(rep, results, key_fn=lambda r: r["spec"][1] + ": " + _script.default_key(r),
              replay_fn=lambda r: REPLAY % {"root": common.ROOT, "spec": r["spec"], "vals": r["cex"]["values"]},
              sample_fn=lambda r: {"case": r["text"], "paths": r["paths"]})
    return rep.finish()


if __name__ == "__main__":
    sys.exit(main())
