"""C19 - loading and serialising are deterministic across runs and hash seeds.

Every iteration over a set whose elements are hashed by string (SymPy symbols, parameter-name strings) inside the
code under test takes its order from a symbolic permutation (`order` stub, which also records where such iterations
happen).  For skeleton scripts with several parameters / registers in one argument the loaded content and the dumps()
text must be identical on all order paths - except the documented freedom (the order in which a register transform
lists its registers; its pairing with the function is C08's).  A differing pair of orders is replayed by running the
script in subprocesses under different PYTHONHASHSEED values and comparing digests; only an observed difference is
reported.
"""
import hashlib
import json
import os
import subprocess
import sys

import z3

from .. import common
from ..pysym import engine, proxies as P, stubs, terms as T, skel, order
from . import _script, _util as U, _snap, c11

PID = "C19"
MOD = "bbverif.checks.c19"

SCRIPTS = [
    ["name s1", "version 1.0", "", "Dgate({a}*{ab}+{b}, %(f)s) | %(m)s"],
    ["name s2", "version 1.0", "", "Dgate({a}*{b}-{c}, phi={c}/{a}) | %(m)s", "Sgate({b}) | %(m)s"],
    ["name s3", "version 1.0", "", "Rgate({x}+{xy}*{y}+{xyz}) | %(m)s"],
    ["name s4", "version 1.0", "", "Rgate(sqrt({r})*{s}+{q_r}) | %(m)s"],
    ["name s5", "version 1.0", "", "MeasureX | 0", "MeasureP | 1", "Dgate(q0+2*q1, k=q1*q0-q5) | %(m)s"],
    ["name s6", "version 1.0", "", "Zgate(q12*q1*q2, q2-q12) | %(m)s"],
    ["name s7", "version 1.0", "", "float array A =", "    {a}, {b}, %(f)s", "    %(f)s, {c}, {ab}", "Gate(A, k={a}+{b}) | %(m)s"],
    ["name s8", "version 1.0", "type tdm (temporal_modes=2)", "", "float array p0 =", "    %(f)s, %(f)s", "Dgate({alpha}*{beta}, p0) | %(m)s", "Sgate({beta}-{alpha}*{gamma}) | %(m)s"],
    ["name s9", "version 1.0", "", "float x = {a}+{b}*{c}", "float y = {b}-{a}", "Dgate(x*y, y/x) | %(m)s"],
    ["name s10", "version 1.0", "", "Dgate({e}*exp({x})+{p}, sin({n})*{i}) | %(m)s"],
    ["name s11", "version 1.0", "", "for int i in 0:2", "    Dgate({a}*i+{b}, k={b}*{c}) | i"],
    ["name s13", "version 1.0", "", "Dgate({lambda_1}-2*{mu}, {mu}/{lambda_1}) | %(m)s", "Sgate({mu}**{lambda_1}) | %(m)s"],
    ["name s14", "version 1.0", "", "MeasureX | 2", "MeasureX | 10", "Dgate(q2-2*q10, k=q10/q2) | %(m)s", "Zgate(q10**2-q2) | %(m)s"],
    ["name s15", "version 1.0", "", "float array A[2, 2] =", "    {w}", "Gate(A, k={x}-{y}*{z}) | %(m)s"],
    ["name s16", "version 1.0", "", "Dgate(arcsin({a})*{b}-{c}, -({a}**2)+{b}) | %(m)s"],
    ["name s17", "version 1.0", "", "Dgate({phi}-{phi_0}*{phi_0_1}, k={U}+{U_0_0}/{phi}) | %(m)s", "float array A =", "    {U}, {U_0_0}", "Gate(A, {phi_0}) | %(m)s"],
    ["name s18", "version 1.0", "", "MeasureX | 0", "MeasureX | 1", "MeasureX | 12", "Dgate(q0-2*q1, {a}) | %(m)s", "Zgate(q1**q0, k=q12/q1-q0) | %(m)s", "Rgate({b}*2) | %(m)s"],
    ["name s12", "version 1.0", "target X8 (shots=%(i)s)", "", "Dgate(%(f)s, %(f)s) | %(m)s", "Vac | [%(m)s, %(m)s]"],
]


def _api_mixed_array():
    import numpy as np
    import sympy
    from blackbird import BlackbirdProgram
    a, b = sympy.Symbol("a"), sympy.Symbol("beta")
    p = BlackbirdProgram(name="api1", version="1.0")
    p._parameters.extend([a, b])
    arr = np.array([[a, 0.5], [1 + 2j, -0.5]], dtype=object)
    arr2 = np.array([[2, b, 1.5], [a * 2, 3, 4]], dtype=object)
    p._operations.append({"op": "G", "args": [arr, a - 2 * b], "kwargs": {"k": arr2, "lst": [a * b, b / a, 1, 0.5, 2j]}, "modes": [0, 1]})
    p._operations.append({"op": "H", "args": [np.array([[b, 1j], [2, a]], dtype=object)], "kwargs": {}, "modes": [2]})
    return p


def _api_options():
    import sympy
    from blackbird import BlackbirdProgram
    x, y, z = sympy.symbols("x y zeta")
    p = BlackbirdProgram(name="api2", version="1.0")
    p._parameters.extend([z, y, x])
    p._target["name"] = "X8"
    p._target["options"] = {"shots": 10, "vals": [1, 2.5, True, "s"], "tag": "abc"}
    p._type["name"] = "tdm"
    p._type["options"] = {"copies": 3, "temporal_modes": 2}
    p._operations.append({"op": "Dgate", "args": [x * y - z, z / x], "kwargs": {"phi": y - x * z}, "modes": [0]})
    return p


FILE_TREES = {
    # a nested include from a sub-directory, with a file of the same name (other content) next to the main script
    "nested_include_with_same_named_file_elsewhere": {
        "main.xbb": 'name main\nversion 1.0\ninclude "lib/chip.xbb"\n\nchip | [1, 2]\nVac | 3\n',
        "lib/chip.xbb": 'name chip\nversion 1.0\ninclude "bs.xbb"\n\nbs | [1, 0]\nRgate(0.5) | 0\n',
        "lib/bs.xbb": "name bs\nversion 1.0\n\nBSgate(0.7, 0.8) | [0, 1]\n",
        "bs.xbb": "name bs\nversion 1.0\n\nBSgate(0.1, 0.2) | [1, 0]\nVac | 0\n",
        "other/bs.xbb": "name bs\nversion 1.0\n\nSgate(0.3) | 0\nSgate(0.4) | 1\n",
    },
    "two_libraries_with_the_same_file_names": {
        "main.xbb": 'name main\nversion 1.0\ninclude "a/top.xbb"\ninclude "b/top2.xbb"\n\ntop | [0, 1]\ntop2 | [2, 3]\n',
        "a/top.xbb": 'name top\nversion 1.0\ninclude "util.xbb"\n\nutil | [0, 1]\n',
        "a/util.xbb": "name util\nversion 1.0\n\nBSgate(0.1) | [0, 1]\n",
        "b/top2.xbb": 'name top2\nversion 1.0\ninclude "util2.xbb"\n\nutil2 | [1, 0]\n',
        "b/util2.xbb": "name util2\nversion 1.0\n\nCZgate(0.9) | [0, 1]\n",
        "util2.xbb": "name util2\nversion 1.0\n\nVac | 0\nVac | 1\n", "a/util2.xbb": "name util2\nversion 1.0\n\nXgate(1) | 0\nZgate(1) | 1\n",
    },
    # a template that hands its own parameters on to an included template under names the included template uses for
    # *other* parameters (binding must be simultaneous, whatever order the parameter set is walked in)
    "template_include_with_colliding_parameter_names": {
        "main.xbb": 'name main\nversion 1.0\ninclude "sub.xbb"\n\nsub(alpha={beta}, beta=0.5) | [2, 3]\nRgate({beta}) | 2\n',
        "sub.xbb": "name sub\nversion 1.0\n\nDgate({alpha} - {beta}, {alpha} + 2*{beta}) | 0\nBSgate({alpha}, {beta}) | [0, 1]\n",
    },
    # register transforms inside an included program and next to a template parameter: the library copies these operations
    "included_program_with_register_transforms": {
        "main.xbb": 'name main\nversion 1.0\ninclude "sub.xbb"\n\nsub | [0, 1, 2]\nMeasureX | 10\nDgate(q10-q2*3, {a}) | 3\nsub | [0, 1, 2]\n',
        "sub.xbb": "name sub\nversion 1.0\n\nMeasureX | 0\nMeasureX | 1\nZgate(q0-2*q1, k=q1/q0) | 2\nXgate(q1**q0-q0) | 2\n",
    },
    "template_include_with_swapped_parameter_names": {
        "main.xbb": 'name main\nversion 1.0\ninclude "mix.xbb"\n\nmix(theta={phi}, phi={theta}, gam={phi}*{gam}) | [0, 1]\nmix(theta=0.25, phi={theta}, gam={theta}) | [1, 2]\n',
        "mix.xbb": "name mix\nversion 1.0\n\nBSgate({theta}+2*{phi}, {phi}-{gam}) | [0, 1]\nRgate({gam}*{theta}*{phi}) | 0\n",
    },
}


def _load_tree(bb, name):
    """writes the tree to a fixed place (string hashes of the paths are part of what is observed) and loads main.xbb"""
    import shutil
    # one place per check run (BBVERIF_C19_ROOT is set by main() and inherited by the seed-sweep subprocesses), so that
    # concurrent runs do not step on each other; a replay on its own uses the fixed default
    root = os.path.join(os.environ.get("BBVERIF_C19_ROOT") or os.path.join("/tmp", "bbverif_c19_files"), name)
    shutil.rmtree(root, ignore_errors=True)
    try:
        for rel, text in FILE_TREES[name].items():
            p = os.path.join(root, rel)
            os.makedirs(os.path.dirname(p), exist_ok=True)
            with open(p, "w") as fh:
                fh.write(text)
        return bb.load(os.path.join(root, "main.xbb"))
    finally:
        shutil.rmtree(root, ignore_errors=True)


# programs assembled through the API (their serialisation must not depend on the hash seed either)
API = {"api_mixed_object_arrays": _api_mixed_array, "api_options_and_expressions": _api_options}
API.update({("files:" + n): None for n in FILE_TREES})
SCRIPTS += [("api", n) for n in API]


def observe(bb, spec, text):
    """what is compared between iteration orders / hash seeds"""
    if isinstance(SCRIPTS[spec], tuple):
        nm = SCRIPTS[spec][1]
        if nm.startswith("files:"):
            try:
                p = _load_tree(bb, nm[6:])
                return (normalise(_snap.program(p)), bb.dumps(p), None)
            except engine.Abort:
                raise
            except Exception as e:  # noqa
                return (None, "load raises %s" % type(e).__name__, None)
        p = API[nm]()
        try:
            return (None, bb.dumps(p), None)
        except engine.Abort:
            raise
        except Exception as e:  # noqa
            return (None, "dumps raises %s" % type(e).__name__, None)
    p = bb.loads(text)
    t = bb.dumps(p)
    names = sorted(p.parameters)
    inst_text = None
    if names:
        try:
            inst = p(**{n: 0.5 + 0.25 * k for k, n in enumerate(names)})
            inst_text = bb.dumps(inst)
        except engine.Abort:
            raise
        except Exception as e:  # noqa  (an instance that cannot be serialised must not hide the template's own text)
            inst_text = "raises %s" % type(e).__name__
    return (normalise(_snap.program(p)), t, inst_text)


def _pairing_of(prog, label, bad):
    import sympy
    for oi, o in enumerate(prog.operations):
        for where, a in [("arg %d" % i, a) for i, a in enumerate(o.get("args", []))] + [("kwarg %s" % k, a) for k, a in o.get("kwargs", {}).items()]:
            if type(a).__name__ != "RegRefTransform":
                continue
            val = {r: 0.375 + 1.25 * r + 0.03125 * r * r for r in a.regrefs}
            try:
                got = complex(a.func(*[val[r] for r in a.regrefs]))
                exp = complex(a.expr.subs({sympy.Symbol("q%d" % r): v for r, v in val.items()}))
            except Exception as e:  # noqa
                bad.append("%s operation %d %s: %s" % (label, oi, where, type(e).__name__))
                continue
            if abs(got - exp) > 1e-9 * max(1.0, abs(exp)):
                bad.append("%s operation %d %s: func(values of registers %s in this order) = %r, the expression %s has the value %r" % (label, oi, where, list(a.regrefs), got, a.expr, exp))


def pairing_violations(bb, spec, text):
    """the documented freedom: a register transform may list its registers in any order, but the list stays paired with its
    function - func applied to the measurement values of the listed registers, in the listed order, is the written expression.
    Checked on the loaded program (also when it comes from a file tree with includes), on an instance of it when it is a
    template, and on a deep copy (the library itself copies the operations of included programs and of instances)"""
    import copy
    bad = []
    if isinstance(SCRIPTS[spec], tuple):
        nm = SCRIPTS[spec][1]
        if not nm.startswith("files:"):
            return []
        p = _load_tree(bb, nm[6:])
    else:
        p = bb.loads(text)
    _pairing_of(p, "loaded program,", bad)
    names = sorted(p.parameters)
    if names:
        try:
            _pairing_of(p(**{n: 0.5 + 0.25 * k for k, n in enumerate(names)}), "instance of the template,", bad)
        except Exception as e:  # noqa  (observe() reports an instance that cannot be made)
            pass
    _pairing_of(copy.deepcopy(p), "deep copy,", bad)
    return bad


def gen(spec, lv):
    if isinstance(SCRIPTS[spec], tuple):
        return {"text": "(program assembled through the API: %s)" % SCRIPTS[spec][1], "pre": []}
    modes = []
    sub = c11.Sub(lv, modes)
    lines = [l % sub if "%(" in l else l for l in SCRIPTS[spec]]
    pre = [z3.Distinct(modes)] if lv.symbolic and len(modes) > 1 else []
    return {"text": "\n".join(lines) + "\n", "pre": pre}


def normalise(s):
    """remove the documented freedom: the order in which a register transform lists its registers"""
    if isinstance(s, dict):
        return {k: normalise(v) for k, v in s.items()}
    if isinstance(s, tuple):
        if s[:1] == ("regref",):
            return ("regref", s[1], tuple(sorted(s[2])), s[3])
        if s[:1] == ("num",):
            return s
        return tuple(normalise(x) for x in s)
    return s


def run_spec(spec):
    w = _script.winit()
    bb = w["bb"]
    out = {"spec": spec, "result": "holds", "paths": 0, "stats": None, "why": None, "cex": None, "funcs": [], "reach": 0}
    lv = skel.Leaves()
    g = gen(spec, lv)
    text = g["text"]
    out["text"] = text
    E = engine.Engine(max_paths=3000)
    E.reset_hooks.append(stubs.reset_tables)
    E.base = list(lv.cons) + list(g["pre"])
    order.install()
    order.SITES.clear()

    def run():
        return observe(bb, spec, text)

    try:
        with U.coverage(out["funcs"]):
            try:
                paths = E.explore(run)
            except engine.PathLimit as e:
                out.update(result="inconclusive", why=str(e), stats=E.stats)
                return out
    finally:
        order.deactivate()
        out["order_sites"] = dict(order.SITES)
    out["paths"] = len(paths)
    ok = [p for p in paths if p.kind != "abort"]
    for p in paths:
        if p.kind == "abort":
            out.update(result="inconclusive", why="abort: %s" % p.value)
    if not ok:
        return out
    ref = ok[0]
    for pth in ok[1:]:
        out["reach"] += 1
        diffs = []
        if pth.kind != ref.kind:
            diffs.append(("one iteration order raises %s, another does not" % (type(pth.value if pth.kind == "exc" else ref.value).__name__), True))
        elif pth.kind == "exc":
            if (type(pth.value), str(pth.value)) != (type(ref.value), str(ref.value)):
                diffs.append(("exception differs between iteration orders", True))
        else:
            if ref.value[0] is not None:
                diffs += _snap.diff(ref.value[0], pth.value[0], "content")
            if ref.value[1] != pth.value[1]:
                diffs.append(("dumps() text differs between iteration orders:\n%s\n--- vs ---\n%s" % (ref.value[1], pth.value[1]), True))
            if ref.value[2] != pth.value[2]:
                diffs.append(("dumps() text of an instance differs between iteration orders", True))
        for where, cond in diffs:
            c = z3.BoolVal(True) if cond is True else cond
            r, mdl = E.query(pth, c, extra=[x for x in ref.pc])
            if r == "unsat":
                continue
            if r != "sat":
                out.update(result="inconclusive", why="solver %s" % r)
                continue
            vals = lv.model_values(mdl)
            rr = seed_sweep(spec, vals, range(0, 24))
            if isinstance(rr, dict):
                rr["symbolic_what"] = where.split("\n")[0]
                rr["orders"] = [n for n in pth.notes if n and n[0] == "order"][:3]
                out.update(result="violation", cex=rr, stats=E.stats)
                return out
            out.setdefault("unconfirmed", []).append({"what": where[:200], "text": text})
    out["stats"] = E.stats
    if out["result"] == "holds":
        vals = [(0.5 + i if k == "float" else 3 + i) for i, (_, k, _) in enumerate(lv.vars)]
        rr = seed_sweep(spec, vals, range(8))
        out["validated"] = 8
        if isinstance(rr, dict):
            rr["symbolic_what"] = "digest differs between hash seeds although all explored orders agree (encoder gap)"
            out.update(result="violation", cex=rr)
    return out


DIGEST = r'''
import sys, hashlib, json
sys.path.insert(0, %(root)r)
import blackbird
from bbverif.checks import _snap, c19
text = %(text)r
try:
    snap, t, it = c19.observe(blackbird, %(spec)r, text)
    s = repr(snap) + "\n" + t + "\n" + repr(it)
except Exception as e:
    s = "EXC %%s %%s" %% (type(e).__name__, e)
print(hashlib.sha256(s.encode()).hexdigest())
try:
    for b in c19.pairing_violations(blackbird, %(spec)r, text):
        print("PAIRING " + b)
except Exception as e:
    pass
print(s[-600:])
'''


def seed_sweep(spec, vals, seeds):
    lv = skel.Leaves(values=vals)
    text = gen(spec, lv)["text"]
    src = DIGEST % {"root": common.ROOT, "text": text, "spec": spec}
    seen = {}
    for sd in seeds:
        env = dict(os.environ, PYTHONHASHSEED=str(sd), PYTHONDONTWRITEBYTECODE="1")
        p = subprocess.run([common.PY, "-W", "ignore", "-c", src], capture_output=True, text=True, env=env, timeout=120)
        lines = p.stdout.strip().split("\n")
        if not lines or len(lines[0]) != 64:
            continue
        broken = [l for l in lines[1:] if l.startswith("PAIRING ")]
        if broken:
            return {"text": text, "values": vals, "what": "a register transform's register list is not paired with its function (PYTHONHASHSEED=%d)" % sd,
                    "observed": "\n".join(broken[:3]), "expected": "func(*[value of q_r for r in regrefs]) == the written expression"}
        lines = [l for l in lines if not l.startswith("PAIRING ")]
        seen.setdefault(lines[0], (sd, "\n".join(lines[1:])))
        if len(seen) > 1:
            (a, (sa, ta)), (b, (sb, tb)) = list(seen.items())[:2]
            return {"text": text, "values": vals, "what": "content/serialisation differs between PYTHONHASHSEED=%d and %d" % (sa, sb),
                    "observed": "seed %d: ...%s\nseed %d: ...%s" % (sa, ta[-300:], sb, tb[-300:]), "expected": "identical in every process"}
    return None


REPLAY = '''#!/usr/bin/env python
# C19 replay: runs the script in subprocesses under PYTHONHASHSEED 0..63 and compares digests of content + dumps() text.
import sys; sys.path.insert(0, %(root)r)
from bbverif.checks import c19
r = c19.seed_sweep(%(spec)r, %(vals)r, range(64))
if r is None:
    print("identical under all seeds"); sys.exit(0)
print(r["text"]); print(r["what"]); print(r["observed"]); sys.exit(1)
'''


def main():
    import shutil
    import tempfile
    os.environ["BBVERIF_C19_ROOT"] = tempfile.mkdtemp(prefix="bbverif_c19_")
    try:
        return _main()
    finally:
        shutil.rmtree(os.environ["BBVERIF_C19_ROOT"], ignore_errors=True)


def _main():
    t = common.tier()
    rep = common.Report(PID, "model_checking")
    rep.rule = ("one case = one script; paths = iteration orders of the string-hashed sets met by the code (forked by the order stub); "
                "the outcome (normalised content snapshot, dumps text, dumps text of an instance) must agree on all paths")
    rep.bounds = {"scripts": len(SCRIPTS), "of which assembled through the API": len(API), "symbols per set": "<=4", "seed sweep on a difference": "PYTHONHASHSEED 0..23 (replay file: 0..63)"}
    rep.assumptions = [
        "one iteration order per distinct set content per path; int-keyed sets (modes) are not permuted: their order does not depend on the hash seed (include mode map: C07)",
        "sets are intercepted at: sympy free_symbols (all classes defining it) and the names `set` / `frozenset` in listener/program/utils/auxiliary; "
        "every script that holds is also run natively under PYTHONHASHSEED 0..7 (orders the stub cannot see, e.g. behind an lru_cache)",
        "the mapping order -> seed is not modelled: a difference between orders is reported only if some pair of seeds 0..23 shows it",
    ]
    results = U.run_parallel(run_spec, list(range(len(SCRIPTS))))
    U.collect(rep, results, key_fn=_script.default_key,
              replay_fn=lambda r: REPLAY % {"root": common.ROOT, "spec": r["spec"], "vals": r["cex"]["values"]},
              sample_fn=lambda r: {"script": r["text"], "order_paths": r["paths"], "sites": r.get("order_sites")})
    sites = {}
    for r in results:
        for k, v in (r.get("order_sites") or {}).items():
            sites[k] = sites.get(k, 0) + v
    rep.extra["set_iteration_sites_in_code_under_test"] = sites
    return rep.finish()


if __name__ == "__main__":
    sys.exit(main())
