"""C15 - TDM programs pass p-arrays by name and keep their data.

load part : tdm skeleton scripts (p-arrays of every dtype and several names, ordinary scalars/arrays, template
            parameters, loops; positional and keyword use) through the real loads on proxies vs. the reference
            interpreter (by-name delivery, data under the name, other variables by value, parameters, is_template)
round trip: the same skeletons through loads -> dumps -> loads twice (C01's driver), p-arrays and references preserved
strings   : string arguments of tdm programs built through the API ("" / "p1" / "abc" ...): serialisation must not
            raise and the string must come back (concrete-structure runs)
"""
import itertools
import sys

import z3

from .. import common
from . import _script, _util as U, c11

PID = "C15"
MOD = "bbverif.checks.c15"

PNAMES = ["p0", "p1", "p12", "p007"]
DT = {"int": "%(i)s", "float": "%(f)s", "complex": "%(c)s"}


def parr(name, dt, n, rows=1):
    L = ["%s array %s =" % (dt, name)]
    for _ in range(rows):
        L.append("    " + ", ".join([DT[dt]] * n))
    return L


SCRIPTS = {}


def _mk():
    S = SCRIPTS
    hdr = ["name tdmprog", "version 1.0", "type tdm (temporal_modes=%(i)s, copies=%(i)s)", ""]
    for dt in ("int", "float", "complex"):
        for n in (1, 2, 3):
            S["one_%s_%d" % (dt, n)] = hdr + parr("p0", dt, n) + ["Rgate(p0) | %(m)s", "MeasureHomodyne(phi=p0) | %(m)s"]
    S["three_arrays"] = hdr + parr("p0", "int", 2) + parr("p1", "float", 2) + parr("p12", "complex", 2) + [
        "BSgate(p0, %(f)s) | [%(m)s, %(m)s]", "Rgate(p1) | %(m)s", "Gate(p12, k=p1, j=p0) | %(m)s"]
    S["leading_zero_name"] = hdr + parr("p007", "float", 2) + ["Rgate(p007) | %(m)s"]
    S["two_rows"] = hdr + parr("p3", "float", 2, rows=2) + ["Rgate(p3) | %(m)s"]
    S["with_scalars"] = hdr + ["float x = %(f)s", "int n = %(m)s"] + parr("p0", "float", 2) + ["Dgate(x, p0) | n", "Rgate(p0, k=x) | %(m)s"]
    S["with_plain_array"] = hdr + parr("A", "float", 2) + parr("p1", "int", 2) + ["Gate(A, p1) | %(m)s", "Gate(U=A, phi=p1) | %(m)s"]
    S["with_template_param"] = hdr + parr("p0", "float", 2) + ["Dgate({r}, p0) | %(m)s", "Sgate(2*{r}, phi={phi}) | %(m)s"]
    S["with_loop"] = hdr + parr("p1", "float", 2) + ["for int i in [%(m)s, %(m)s]", "    Rgate(p1) | i", "    Dgate(%(f)s) | i"]
    S["unused_parray"] = hdr + parr("p0", "int", 2) + parr("p1", "int", 2) + ["Rgate(p1) | %(m)s"]
    S["index_into_parray"] = hdr + parr("p0", "float", 3) + ["Rgate(p0[1]) | %(m)s", "Dgate(p0) | %(m)s"]
    S["pname_like_plain_names"] = hdr + parr("px", "float", 2) + parr("pp1", "float", 2) + ["float p = %(f)s", "Gate(px, pp1, p) | %(m)s"]
    S["pnames_with_suffix"] = hdr + parr("p0_shift", "float", 2) + parr("p12b", "int", 2) + parr("p_1", "float", 2) + parr("P0", "float", 2) + parr("p1", "float", 2) + [
        "Gate(p0_shift, p12b, k=p_1) | %(m)s", "Gate(P0, p1) | %(m)s"]
    S["parray_after_loop"] = hdr + parr("p1", "float", 2) + ["for int i in [%(m)s, %(m)s]", "    Dgate(%(f)s) | i", "Rgate(p1, k=p1) | %(m)s", "for int j in 0:2", "    Vac | j", "Sgate(p1) | %(m)s"]
    S["plain_array_like_parray"] = hdr + parr("p0", "float", 2) + parr("B", "float", 2) + parr("p1", "int", 2) + parr("C", "int", 2) + ["Rgate(p0) | %(m)s", "Rgate(B, k=C) | %(m)s", "Gate(C, p1) | %(m)s"]
    S["parray_first_then_scalar_same_stmt"] = hdr + parr("p0", "float", 2) + ["float y = %(f)s", "Gate(p0, y, k=y, j=p0) | %(m)s"]
    # a bare p (no digits) is an ordinary name
    S["bare_p_is_plain"] = hdr + parr("p", "float", 2) + parr("p0", "int", 2) + ["float q = %(f)s", "Gate(p, p0, k=p) | %(m)s", "Rgate(q, j=p0) | %(m)s"]
    # not tdm: the same names are ordinary arrays, passed by value
    nothdr = ["name plain", "version 1.0", ""]
    S["not_tdm"] = nothdr + parr("p0", "float", 2) + ["Rgate(p0) | %(m)s"]
    S["other_type"] = ["name plain", "version 1.0", "type sampling (copies=%(i)s)", ""] + parr("p1", "int", 2) + ["Rgate(p1, k=p1) | %(m)s"]
    S["tdm_no_parrays"] = hdr + ["float x = %(f)s", "Dgate(x) | %(m)s", "Vac | %(m)s"]
    S["tdm_template_no_parrays"] = hdr + ["Dgate({a}) | %(m)s"]


_mk()


def gen(spec, lv):
    modes = []
    sub = c11.Sub(lv, modes)
    lines = [l % sub if "%(" in l else l for l in SCRIPTS[spec]]
    pre = [z3.Distinct(modes)] if lv.symbolic and len(modes) > 1 else []

    def extra(c, ip, rp):
        # p-names are never reported as free parameters
        for pn in ip.variables:
            if pn in set(ip.parameters) and pn[0] == "p" and pn[1:].isdigit():
                c.miss("parameters", "p-array name %r reported as a free parameter" % pn)

    return {"text": "\n".join(lines) + "\n", "pre": pre, "extra_compare": extra}


STRINGS = ["", "p1", "abc", "p", "p1x", "1p", "p 1"]


def string_case(s, slot, declared):
    """API-built tdm program with a string argument; returns None or a mismatch dict"""
    import numpy as np
    import blackbird
    import blackbird.auxiliary as aux
    prog = blackbird.BlackbirdProgram(name="strs")
    prog._type["name"] = "tdm"
    prog._type["options"] = {"temporal_modes": 2}
    if declared:
        prog._var["p1"] = np.array([[1, 2]])
    if slot == "pos":
        prog._operations.append({"op": "Gate", "args": [s, 0.5], "kwargs": {}, "modes": [0]})
    else:
        prog._operations.append({"op": "Gate", "args": [], "kwargs": {"key": s}, "modes": [0]})
    base = {"text": "tdm program built through the API with string %r as %s argument (p1 declared: %s)" % (s, slot, declared), "values": []}
    try:
        t = blackbird.dumps(prog)
    except Exception as e:  # noqa
        return dict(base, what="dumps raises %s" % type(e).__name__, observed="%s: %s" % (type(e).__name__, e), expected="a script")
    aux._VAR.clear()
    aux._PARAMS.clear()
    try:
        q = blackbird.loads(t)
    except Exception as e:  # noqa
        aux._VAR.clear()
        aux._PARAMS.clear()
        return dict(base, what="the serialised script is rejected: %s" % type(e).__name__, observed="%s: %s\n%s" % (type(e).__name__, str(e)[:200], t), expected="re-loads")
    got = q.operations[0]["args"][0] if slot == "pos" else q.operations[0]["kwargs"].get("key")
    if not (isinstance(got, str) and got == s):
        return dict(base, what="string argument %r came back as %r" % (s, got), observed=repr(got), expected=repr(s))
    return None


def _parrays():
    import numpy as np
    return {"nested list of ints and floats": [[0, 0.5, 1]], "nested list of ints": [[1, 2, 3]], "tuple of rows": ((1.5, 2.5), (3.5, 4.0)), "list with complex": [[1j, 2, 0.5]],
            "int32 array": np.array([[1, 2]], dtype=np.int32), "float32 array": np.array([[0.5, 1.5]], dtype=np.float32), "complex64 array": np.array([[0.5 + 1j, 2]], dtype=np.complex64),
            "list of float then ints": [[0.5, 1, 2], [3, 4, 5]], "transposed view": np.arange(6).reshape(3, 2).T * 0.5,
            "a row of 1001 floats": np.arange(1001).reshape(1, 1001) * 0.5, "1200 rows of ints": np.arange(2400).reshape(1200, 2)}


def parray_case(name):
    """API-built tdm program whose p-array was stored as a nested list / tuple / narrow NumPy type; it must come back with its
    values, under its name, still referenced by name"""
    import numpy as np
    import blackbird
    import blackbird.auxiliary as aux
    v = _parrays()[name]
    prog = blackbird.BlackbirdProgram(name="parr")
    prog._type["name"] = "tdm"
    prog._type["options"] = {"temporal_modes": 2}
    prog._var["p0"] = v
    prog._operations.append({"op": "Gate", "args": ["p0", 0.5], "kwargs": {"k": "p0"}, "modes": [0]})
    base = {"text": "tdm program built through the API with p0 = %r (%s)" % (v, name), "values": []}
    try:
        t = blackbird.dumps(prog)
    except Exception as e:  # noqa
        return dict(base, what="dumps raises %s" % type(e).__name__, observed="%s: %s" % (type(e).__name__, e), expected="a script")
    aux._VAR.clear()
    aux._PARAMS.clear()
    try:
        q = blackbird.loads(t)
    except Exception as e:  # noqa
        return dict(base, what="the serialised script is rejected: %s" % type(e).__name__, observed="%s: %s\n%s" % (type(e).__name__, str(e)[:200], t), expected="re-loads")
    finally:
        aux._VAR.clear()
        aux._PARAMS.clear()
    want = np.array(v)
    got = q.variables.get("p0")
    if not isinstance(got, np.ndarray) or got.shape != want.shape or not np.array_equal(got, want) or got.dtype.kind != want.dtype.kind:
        return dict(base, what="p-array p0 is not preserved", observed="%r\n%s" % (got, t), expected=repr(want))
    o = q.operations[0]
    if o["args"][0] != "p0" or o["kwargs"].get("k") != "p0":
        return dict(base, what="references to p0 are not preserved", observed=repr(o), expected="'p0' by name")
    return None


def run_job(job):
    kind, spec = job
    if kind == "parr":
        out = {"spec": ("parr", spec), "result": "holds", "paths": 1, "stats": None, "funcs": [], "reach": 1, "validated": 1,
               "text": "p-array stored through the API as %s" % spec, "name": "p-array via API: %s" % spec}
        r = parray_case(spec)
        if r:
            r["symbolic_what"] = r["what"]
            out.update(result="violation", cex=r)
        return out
    if kind == "load":
        r = _script.run_spec((MOD, spec))
        r["spec"] = ("load", spec)
        r["name"] = "load %s" % spec
        return r
    if kind == "rt":
        from . import c01
        r = c01.run_spec(("c15", spec))
        r["name"] = "round trip %s" % spec
        r["spec"] = ("rt", spec)
        return r
    s, slot, declared = spec
    out = {"spec": ("str", spec), "result": "holds", "paths": 1, "stats": None, "funcs": [], "reach": 1, "validated": 1,
           "text": "string argument %r (%s, p1 declared=%s)" % (s, slot, declared), "name": "string %r %s declared=%s" % (s, slot, declared)}
    r = string_case(s, slot, declared)
    if r:
        r["symbolic_what"] = r["what"]
        out.update(result="violation", cex=r)
    return out


def finding_key(r):
    if r["spec"][0] == "parr":
        return "p-array via API %s: %s" % (r["spec"][1], r["cex"]["what"].split(":")[0])
    if r["spec"][0] == "str":
        s, slot, declared = r["spec"][1]
        return "string %r declared=%s: %s" % (s, declared, r["cex"]["what"].split(":")[0])
    return r["spec"][0] + ": " + _script.default_key(r)


REPLAY_STR = '''#!/usr/bin/env python
import sys; sys.path.insert(0, %(root)r)
from bbverif.checks import c15
r = c15.string_case(*%(spec)r)
if r is None:
    print("ok"); sys.exit(0)
print(r["text"]); print("what    :", r["what"]); print("observed:", r["observed"]); print("expected:", r["expected"]); sys.exit(1)
'''


def replay_src(r):
    kind, spec = r["spec"]
    if kind == "parr":
        return REPLAY_STR.replace("c15.string_case(*%(spec)r)", "c15.parray_case(%(spec)r)") % {"root": common.ROOT, "spec": spec}
    if kind == "str":
        return REPLAY_STR % {"root": common.ROOT, "spec": spec}
    if kind == "load":
        return _script.REPLAY % {"root": common.ROOT, "mod": MOD, "spec": spec, "vals": r["cex"]["values"]}
    from . import c01
    return c01.REPLAY % {"root": common.ROOT, "spec": ("c15", spec), "vals": r["cex"]["values"]}


def main():
    t = common.tier()
    rep = common.Report(PID, "model_checking")
    rep.rule = ("one case = (tdm skeleton, load | round trip) run symbolically with all array elements/literals as solver variables, "
                "or one concrete string-argument case; distinct = distinct (skeleton, part)")
    rep.bounds = {"p-arrays": "1-3 per script, names p0 p1 p12 p007 p3, 1xn n<=3 and 2x2", "dtypes": "int float complex", "strings": STRINGS,
                  "p-arrays stored through the API": sorted(_parrays())}
    rep.assumptions = [
        "reference: by-name delivery iff program type is tdm and the array name is p followed by digits (bbverif/ref/interp.py)",
        "string-argument cases are concrete (no solver)",
        "a string argument spelled like an undeclared p-name ('p1' without an array p1) cannot be told apart from a by-name reference: see known findings",
    ]
    jobs = [("load", s) for s in SCRIPTS] + [("rt", s) for s in SCRIPTS]
    jobs += [("str", (s, slot, d)) for s in STRINGS for slot in ("pos", "kw") for d in (False, True)]
    jobs += [("parr", n) for n in _parrays()]
    results = U.run_parallel(run_job, jobs)
    U.collect(rep, results, key_fn=finding_key, replay_fn=replay_src,
              sample_fn=lambda r: {"case": r.get("name"), "script": r.get("text"), "paths": r["paths"]})
    return rep.finish()


if __name__ == "__main__":
    sys.exit(main())
