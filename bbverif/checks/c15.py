"""C15 - TDM programs pass p-arrays by name and keep their data.

load part : tdm skeleton scripts (p-arrays of every dtype and several names, ordinary scalars/arrays, template
            parameters, loops; positional and keyword use) through the real loads on proxies vs. the reference
            interpreter (by-name delivery, data under the name, other variables by value, parameters, is_template)
round trip: the same skeletons through loads -> dumps -> loads twice (C01's driver), p-arrays and references preserved
strings   : string arguments of tdm programs built through the API ("" / "p1" / "abc" ...): serialisation must not
            raise and the string must come back (concrete-structure runs)
"""
import itertools
import sys

import numpy as np
import z3

from .. import common
from ..pysym import engine, proxies as P
from . import _script, _util as U, c11

PID = "C15"
MOD = "bbverif.checks.c15"

PNAMES = ["p0", "p1", "p12", "p007"]
DT = {"int": "%(i)s", "float": "%(f)s", "complex": "%(c)s"}


def parr(name, dt, n, rows=1):
    L = ["%s array %s =" % (dt, name)]
    for _ in range(rows):
        L.append("    " + ", ".join([DT[dt]] * n))
    return L


SCRIPTS = {}


def _mk():
    S = SCRIPTS
    hdr = ["name tdmprog", "version 1.0", "type tdm (temporal_modes=%(i)s, copies=%(i)s)", ""]
    for dt in ("int", "float", "complex"):
        for n in (1, 2, 3):
            S["one_%s_%d" % (dt, n)] = hdr + parr("p0", dt, n) + ["Rgate(p0) | %(m)s", "MeasureHomodyne(phi=p0) | %(m)s"]
    S["three_arrays"] = hdr + parr("p0", "int", 2) + parr("p1", "float", 2) + parr("p12", "complex", 2) + [
        "BSgate(p0, %(f)s) | [%(m)s, %(m)s]", "Rgate(p1) | %(m)s", "Gate(p12, k=p1, j=p0) | %(m)s"]
    S["leading_zero_name"] = hdr + parr("p007", "float", 2) + ["Rgate(p007) | %(m)s"]
    S["two_rows"] = hdr + parr("p3", "float", 2, rows=2) + ["Rgate(p3) | %(m)s"]
    S["with_scalars"] = hdr + ["float x = %(f)s", "int n = %(m)s"] + parr("p0", "float", 2) + ["Dgate(x, p0) | n", "Rgate(p0, k=x) | %(m)s"]
    S["with_plain_array"] = hdr + parr("A", "float", 2) + parr("p1", "int", 2) + ["Gate(A, p1) | %(m)s", "Gate(U=A, phi=p1) | %(m)s"]
    S["with_template_param"] = hdr + parr("p0", "float", 2) + ["Dgate({r}, p0) | %(m)s", "Sgate(2*{r}, phi={phi}) | %(m)s"]
    S["with_loop"] = hdr + parr("p1", "float", 2) + ["for int i in [%(m)s, %(m)s]", "    Rgate(p1) | i", "    Dgate(%(f)s) | i"]
    S["unused_parray"] = hdr + parr("p0", "int", 2) + parr("p1", "int", 2) + ["Rgate(p1) | %(m)s"]
    S["index_into_parray"] = hdr + parr("p0", "float", 3) + ["Rgate(p0[1]) | %(m)s", "Dgate(p0) | %(m)s"]
    S["pname_like_plain_names"] = hdr + parr("px", "float", 2) + parr("pp1", "float", 2) + ["float p = %(f)s", "Gate(px, pp1, p) | %(m)s"]
    S["pnames_with_suffix"] = hdr + parr("p0_shift", "float", 2) + parr("p12b", "int", 2) + parr("p_1", "float", 2) + parr("P0", "float", 2) + parr("p1", "float", 2) + [
        "Gate(p0_shift, p12b, k=p_1) | %(m)s", "Gate(P0, p1) | %(m)s"]
    S["parray_after_loop"] = hdr + parr("p1", "float", 2) + ["for int i in [%(m)s, %(m)s]", "    Dgate(%(f)s) | i", "Rgate(p1, k=p1) | %(m)s", "for int j in 0:2", "    Vac | j", "Sgate(p1) | %(m)s"]
    S["plain_array_like_parray"] = hdr + parr("p0", "float", 2) + parr("B", "float", 2) + parr("p1", "int", 2) + parr("C", "int", 2) + ["Rgate(p0) | %(m)s", "Rgate(B, k=C) | %(m)s", "Gate(C, p1) | %(m)s"]
    S["parray_first_then_scalar_same_stmt"] = hdr + parr("p0", "float", 2) + ["float y = %(f)s", "Gate(p0, y, k=y, j=p0) | %(m)s"]
    # a p-array stays a name when the argument is written in brackets or with a sign in front (the value of `(p0)` is the value of `p0`)
    S["parray_in_brackets"] = hdr + parr("p0", "float", 3) + parr("p1", "float", 3) + parr("p12", "int", 2) + [
        "BSgate((p0), %(f)s) | [%(m)s, %(m)s]", "MeasureHomodyne(phi=(p1)) | %(m)s", "Rgate(+p12, k=((p0))) | %(m)s",
        "for int i in [%(m)s, %(m)s]", "    Rgate((p1), k=+p0) | i"]
    # ordinary arrays of a tdm program are declared under their own names AND passed by value: the names the serialiser
    # generates for by-value arrays (A0, A1, ...) must not clash with them
    S["plain_arrays_named_like_generated"] = hdr + parr("A1", "float", 2) + parr("A2", "float", 2) + parr("A0", "int", 2) + parr("p0", "float", 2) + [
        "Gate(A1) | %(m)s", "Gate(A2, k=A0) | %(m)s", "Gate(p0, A2, j=A1) | %(m)s"]
    S["plain_arrays_named_like_generated_kw"] = hdr + parr("A1", "float", 2) + parr("A2", "float", 2) + ["Gate(k=A1) | %(m)s", "Gate(k=A2) | %(m)s", "Gate(A1, A2, A1) | %(m)s"]
    # several features in one place: a p-array indexed by a loop variable next to the whole p-array and a template parameter
    S["parray_indexed_by_loop_var_in_template"] = hdr + parr("p0", "float", 3) + parr("p1", "int", 3) + [
        "for int i in 0:2", "    Rgate(p0[i], {a}) | i", "    Dgate(p0, p0[i+1]*2, k=2*{a}+1, j=p1) | [i, p1[i]+50]"]
    S["plain_array_A0_and_keyword_array_first"] = hdr + parr("A0", "float", 2) + parr("B", "float", 2) + parr("p0", "float", 2) + [
        "Gate(k=B) | %(m)s", "Gate(B, p0, k=A0) | %(m)s", "Gate(j=A0, k=B) | %(m)s"]
    # a bare p (no digits) is an ordinary name
    # names that Python's int() would read as numbers but that are not "p followed by digits" (digit-group underscores, ...)
    S["pnames_with_digit_groups"] = hdr + parr("p1_0", "float", 2) + parr("p0_1", "int", 2) + parr("p1_", "float", 2) + parr("p10", "float", 2) + [
        "Gate(p1_0, p0_1, k=p1_) | %(m)s", "Gate(p10, k=p1_0) | %(m)s"]
    # one p-name bound several times: what counts is what the name holds where it is used (a scalar is passed by value, an array
    # declared later under the same name is a p-array from then on, whatever was registered before)
    S["scalar_then_parray_same_name"] = hdr + ["float p1 = %(f)s", "Dgate(p1, k=p1) | %(m)s"] + parr("p1", "float", 2) + ["Rgate(p1, k=p1) | %(m)s"]
    S["parray_declared_twice"] = hdr + parr("p0", "float", 2) + ["Rgate(p0) | %(m)s"] + parr("p0", "int", 3) + ["Sgate(p0, k=p0) | %(m)s"]
    S["int_scalar_then_parray_then_use_in_loop"] = hdr + ["int p2 = %(m)s"] + parr("p2", "float", 2) + ["for int i in [%(m)s, %(m)s]", "    Rgate(p2, p2[1]) | i"]
    S["bare_p_is_plain"] = hdr + parr("p", "float", 2) + parr("p0", "int", 2) + ["float q = %(f)s", "Gate(p, p0, k=p) | %(m)s", "Rgate(q, j=p0) | %(m)s"]
    # not tdm: the same names are ordinary arrays, passed by value
    nothdr = ["name plain", "version 1.0", ""]
    S["not_tdm"] = nothdr + parr("p0", "float", 2) + ["Rgate(p0) | %(m)s"]
    S["other_type"] = ["name plain", "version 1.0", "type sampling (copies=%(i)s)", ""] + parr("p1", "int", 2) + ["Rgate(p1, k=p1) | %(m)s"]
    S["tdm_no_parrays"] = hdr + ["float x = %(f)s", "Dgate(x) | %(m)s", "Vac | %(m)s"]
    S["tdm_template_no_parrays"] = hdr + ["Dgate({a}) | %(m)s"]


_mk()


def gen(spec, lv):
    modes = []
    sub = c11.Sub(lv, modes)
    lines = [l % sub if "%(" in l else l for l in SCRIPTS[spec]]
    pre = [z3.Distinct(modes)] if lv.symbolic and len(modes) > 1 else []

    def extra(c, ip, rp):
        # p-names are never reported as free parameters
        for pn in ip.variables:
            if pn in set(ip.parameters) and pn[0] == "p" and pn[1:].isdigit():
                c.miss("parameters", "p-array name %r reported as a free parameter" % pn)

    return {"text": "\n".join(lines) + "\n", "pre": pre, "extra_compare": extra}


STRINGS = ["", "p1", "abc", "p", "p1x", "1p", "p 1"]


def string_case(s, slot, declared):
    """API-built tdm program with a string argument; returns None or a mismatch dict"""
    import numpy as np
    import blackbird
    import blackbird.auxiliary as aux
    prog = blackbird.BlackbirdProgram(name="strs")
    prog._type["name"] = "tdm"
    prog._type["options"] = {"temporal_modes": 2}
    if declared:
        prog._var["p1"] = np.array([[1, 2]])
    if slot == "pos":
        prog._operations.append({"op": "Gate", "args": [s, 0.5], "kwargs": {}, "modes": [0]})
    else:
        prog._operations.append({"op": "Gate", "args": [], "kwargs": {"key": s}, "modes": [0]})
    base = {"text": "tdm program built through the API with string %r as %s argument (p1 declared: %s)" % (s, slot, declared), "values": []}
    try:
        t = blackbird.dumps(prog)
    except Exception as e:  # noqa
        return dict(base, what="dumps raises %s" % type(e).__name__, observed="%s: %s" % (type(e).__name__, e), expected="a script")
    aux._VAR.clear()
    aux._PARAMS.clear()
    try:
        q = blackbird.loads(t)
    except Exception as e:  # noqa
        aux._VAR.clear()
        aux._PARAMS.clear()
        return dict(base, what="the serialised script is rejected: %s" % type(e).__name__, observed="%s: %s\n%s" % (type(e).__name__, str(e)[:200], t), expected="re-loads")
    got = q.operations[0]["args"][0] if slot == "pos" else q.operations[0]["kwargs"].get("key")
    if not (isinstance(got, str) and got == s):
        return dict(base, what="string argument %r came back as %r" % (s, got), observed=repr(got), expected=repr(s))
    return None


def _parrays():
    import numpy as np
    return {"nested list of ints and floats": [[0, 0.5, 1]], "nested list of ints": [[1, 2, 3]], "tuple of rows": ((1.5, 2.5), (3.5, 4.0)), "list with complex": [[1j, 2, 0.5]],
            "int32 array": np.array([[1, 2]], dtype=np.int32), "float32 array": np.array([[0.5, 1.5]], dtype=np.float32), "complex64 array": np.array([[0.5 + 1j, 2]], dtype=np.complex64),
            "list of float then ints": [[0.5, 1, 2], [3, 4, 5]], "transposed view": np.arange(6).reshape(3, 2).T * 0.5,
            "a row of 1001 floats": np.arange(1001).reshape(1, 1001) * 0.5, "1200 rows of ints": np.arange(2400).reshape(1200, 2)}


def parray_case(name):
    """API-built tdm program whose p-array was stored as a nested list / tuple / narrow NumPy type; it must come back with its
    values, under its name, still referenced by name"""
    import numpy as np
    import blackbird
    import blackbird.auxiliary as aux
    v = _parrays()[name]
    prog = blackbird.BlackbirdProgram(name="parr")
    prog._type["name"] = "tdm"
    prog._type["options"] = {"temporal_modes": 2}
    prog._var["p0"] = v
    prog._operations.append({"op": "Gate", "args": ["p0", 0.5], "kwargs": {"k": "p0"}, "modes": [0]})
    base = {"text": "tdm program built through the API with p0 = %r (%s)" % (v, name), "values": []}
    try:
        t = blackbird.dumps(prog)
    except Exception as e:  # noqa
        return dict(base, what="dumps raises %s" % type(e).__name__, observed="%s: %s" % (type(e).__name__, e), expected="a script")
    aux._VAR.clear()
    aux._PARAMS.clear()
    try:
        q = blackbird.loads(t)
    except Exception as e:  # noqa
        return dict(base, what="the serialised script is rejected: %s" % type(e).__name__, observed="%s: %s\n%s" % (type(e).__name__, str(e)[:200], t), expected="re-loads")
    finally:
        aux._VAR.clear()
        aux._PARAMS.clear()
    want = np.array(v)
    got = q.variables.get("p0")
    if not isinstance(got, np.ndarray) or got.shape != want.shape or not np.array_equal(got, want) or got.dtype.kind != want.dtype.kind:
        return dict(base, what="p-array p0 is not preserved", observed="%r\n%s" % (got, t), expected=repr(want))
    o = q.operations[0]
    if o["args"][0] != "p0" or o["kwargs"].get("k") != "p0":
        return dict(base, what="references to p0 are not preserved", observed=repr(o), expected="'p0' by name")
    return None


def run_job(job):
    kind, spec = job
    if kind == "parr":
        out = {"spec": ("parr", spec), "result": "holds", "paths": 1, "stats": None, "funcs": [], "reach": 1, "validated": 1,
               "text": "p-array stored through the API as %s" % spec, "name": "p-array via API: %s" % spec}
        r = parray_case(spec)
        if r:
            r["symbolic_what"] = r["what"]
            out.update(result="violation", cex=r)
        return out
    if kind == "load":
        r = _script.run_spec((MOD, spec))
        r["spec"] = ("load", spec)
        r["name"] = "load %s" % spec
        return r
    if kind == "rt":
        from . import c01
        r = c01.run_spec(("c15", spec))
        r["name"] = "round trip %s" % spec
        r["spec"] = ("rt", spec)
        return r
    s, slot, declared = spec
    out = {"spec": ("str", spec), "result": "holds", "paths": 1, "stats": None, "funcs": [], "reach": 1, "validated": 1,
           "text": "string argument %r (%s, p1 declared=%s)" % (s, slot, declared), "name": "string %r %s declared=%s" % (s, slot, declared)}
    r = string_case(s, slot, declared)
    if r:
        r["symbolic_what"] = r["what"]
        out.update(result="violation", cex=r)
    return out


def finding_key(r):
    if r["spec"][0] == "names":
        return "p-type names: %s" % r["cex"]["what"].split(" is ")[0]
    if r["spec"][0] == "parr":
        return "p-array via API %s: %s" % (r["spec"][1], r["cex"]["what"].split(":")[0])
    if r["spec"][0] == "str":
        s, slot, declared = r["spec"][1]
        return "string %r declared=%s: %s" % (s, declared, r["cex"]["what"].split(":")[0])
    return r["spec"][0] + ": " + _script.default_key(r)


REPLAY_STR = '''#!/usr/bin/env python
import sys; sys.path.insert(0, %(root)r)
from bbverif.checks import c15
r = c15.string_case(*%(spec)r)
if r is None:
    print("ok"); sys.exit(0)
print(r["text"]); print("what    :", r["what"]); print("observed:", r["observed"]); print("expected:", r["expected"]); sys.exit(1)
'''


# ----------------------------------------------------------------------------- names: which names are p-type?
class NStr(str):
    """a *symbolic name*: a str subclass that carries a z3 String term, so that the real `is_ptype` / `_is_ptype_reference`
    run on all names at once.  str(x) gives x itself; indexing, slicing, ==, isdigit, startswith, `in dict` are z3 sequence
    operations (ASCII names: the NAME rule of the grammar admits nothing else); anything else aborts the path."""

    def __new__(cls, term):
        o = str.__new__(cls, "<symbolic name>")
        o.t = term
        return o

    def __str__(self):
        return self

    def __repr__(self):
        raise engine.Abort("repr of a symbolic name")

    def __hash__(self):
        raise engine.Abort("hash of a symbolic name")

    def _o(self, o):
        if isinstance(o, NStr):
            return o.t
        if isinstance(o, str):
            return z3.StringVal(o)
        raise engine.Abort("symbolic name compared with %r" % type(o))

    def __eq__(self, o):
        return P.SBool(self.t == self._o(o))

    def __ne__(self, o):
        return P.SBool(self.t != self._o(o))

    def __len__(self):
        raise engine.Abort("len of a symbolic name")

    def __getitem__(self, k):
        n = z3.Length(self.t)
        if isinstance(k, slice):
            if k.step not in (None, 1) or (k.start or 0) < 0 or (k.stop is not None and k.stop < 0):
                raise engine.Abort("slice %r of a symbolic name" % (k,))
            a = k.start or 0
            ln = (n - a) if k.stop is None else (z3.If(n < k.stop, n, z3.IntVal(k.stop)) - a)
            return NStr(z3.SubString(self.t, a, z3.If(ln < 0, z3.IntVal(0), ln)))
        if not isinstance(k, int) or k < 0:
            raise engine.Abort("index %r of a symbolic name" % (k,))
        if not engine.cur().branch(n > k):
            raise IndexError("string index out of range")
        return NStr(z3.SubString(self.t, k, 1))

    def startswith(self, pre, *a):
        if a:
            raise engine.Abort("startswith with offsets")
        return P.SBool(z3.PrefixOf(self._o(pre), self.t))

    def isdigit(self):
        return P.SBool(z3.InRe(self.t, z3.Plus(z3.Range("0", "9"))))

    isdecimal = isdigit
    isnumeric = isdigit


class _VarTable(dict):
    """program._var with exactly one declared array whose name is the symbolic name"""

    def __init__(self, name):
        dict.__init__(self)
        self.name = name

    def __contains__(self, k):
        if isinstance(k, NStr):
            return bool(P.SBool(k.t == self.name.t))
        return False


def names_case(_=None):
    """O-names: for ALL names (sentences of the NAME rule, at most 8 characters) the real is_ptype() and the serialiser's
    _is_ptype_reference() say 'p-type' exactly for p followed by one or more digits.  Symbolic run of the two functions on a z3
    string; if the code cannot be followed symbolically, every name of <= 4 characters over a small alphabet is run natively."""
    import itertools
    from blackbird import listener as LS
    from blackbird.program import BlackbirdProgram
    out = {"spec": ("names", 0), "name": "O-names: p-type names are exactly p[0-9]+", "result": "holds", "paths": 0, "stats": None, "why": None, "cex": None, "funcs": [], "reach": 0,
           "text": "is_ptype(name) / _is_ptype_reference(name) for all names of the NAME rule up to 8 characters"}
    nm = z3.String("name")
    letters = z3.Union(z3.Range("a", "z"), z3.Range("A", "Z"))
    name_re = z3.Concat(letters, z3.Star(z3.Union(letters, z3.Range("0", "9"), z3.Re("_"))))
    spec = z3.InRe(nm, z3.Concat(z3.Re("p"), z3.Plus(z3.Range("0", "9"))))

    def run_is():
        return bool(LS.is_ptype(NStr(nm)))

    def run_ref():
        pr = BlackbirdProgram(name="t", version="1.0")
        pr._type["name"] = "tdm"
        x = NStr(nm)
        pr._var = _VarTable(x)
        return bool(pr._is_ptype_reference(x))

    symbolic_ok = True
    for label, fn in (("is_ptype", run_is), ("_is_ptype_reference", run_ref)):
        E = engine.Engine(max_paths=200)
        E.base = [z3.InRe(nm, name_re), z3.Length(nm) <= 8]
        try:
            with U.coverage(out["funcs"]):
                paths = E.explore(fn)
        except engine.PathLimit:
            symbolic_ok = False
            continue
        out["paths"] += len(paths)
        for pth in paths:
            if pth.kind == "abort":
                symbolic_ok = False
                continue
            out["reach"] += 1
            cond = z3.BoolVal(True) if pth.kind == "exc" else (z3.Not(spec) if pth.value else spec)
            r, mdl = E.query(pth, cond)
            if r == "unsat":
                continue
            if r != "sat":
                symbolic_ok = False
                continue
            w = mdl.eval(nm, model_completion=True).as_string()
            rr = name_native(w)
            if rr:
                out.update(result="violation", cex=dict(rr, values=[w], symbolic_what="%s on the name %r" % (label, w)), stats=E.stats)
                return out
            out.setdefault("unconfirmed", []).append({"what": "%s differs from p[0-9]+ on %r (not reproduced natively)" % (label, w), "text": w})
        out["stats"] = E.stats
    # native sweep (always: it also covers the route through the parser; it is the only verdict if the symbolic run gave none)
    n = 0
    for k in range(1, 5):
        for tup in itertools.product("p01_xP9", repeat=k):
            w = "".join(tup)
            if not (w[0].isalpha()):
                continue
            n += 1
            rr = name_native(w, parse=(k <= 3))
            if rr:
                out.update(result="violation", cex=dict(rr, values=[w], symbolic_what="name %r" % w))
                return out
    out["validated"] = n
    if not symbolic_ok:
        out["why"] = "the functions could not be followed symbolically on every path; verdict from the native sweep over %d names only" % n
        out["symbolic_incomplete"] = True
    return out


def name_native(w, parse=True):
    """concrete: is the name treated as p-type exactly if it is p[0-9]+ - by is_ptype, by the serialiser, and (parse) by a tdm
    script that declares an array of that name and passes it to an operation"""
    import re
    import blackbird
    from blackbird import listener as LS
    from blackbird.program import BlackbirdProgram
    want = re.fullmatch(r"p[0-9]+", w) is not None
    base = {"text": "name %r in a tdm program" % w, "expected": "p-type" if want else "an ordinary name"}
    got = bool(LS.is_ptype(w))
    if got != want:
        return dict(base, what="is_ptype(%r) is %r" % (w, got), observed=repr(got))
    pr = BlackbirdProgram(name="t", version="1.0")
    pr._type["name"] = "tdm"
    pr._var[w] = np.array([[1.0, 2.0]])
    got = bool(pr._is_ptype_reference(w))
    if got != want:
        return dict(base, what="_is_ptype_reference(%r) is %r" % (w, got), observed=repr(got))
    if parse and w not in ("pi", "P", "x", "p"):
        text = "name t\nversion 1.0\ntype tdm (temporal_modes=2)\n\nfloat array %s =\n    1.0, 2.0\nGate(%s, k=%s) | 0\n" % (w, w, w)
        try:
            p = blackbird.loads(text)
        except Exception as e:  # noqa
            return dict(base, what="a tdm script with an array named %r raises %s" % (w, type(e).__name__), observed=str(e)[:200], text=text)
        a = p.operations[0]["args"][0]
        byname = isinstance(a, str)
        if byname != want:
            return dict(base, what="array %r is delivered %s" % (w, "by name" if byname else "by value"), observed=repr(a), text=text)
    return None


REPLAY_NAME = '''#!/usr/bin/env python
import sys; sys.path.insert(0, %(root)r)
from bbverif.checks import c15
r = c15.name_native(%(name)r)
if r is None:
    print("ok"); sys.exit(0)
print(r["text"]); print("what    :", r["what"]); print("observed:", r["observed"]); print("expected:", r["expected"]); sys.exit(1)
'''


def replay_src(r):
    kind, spec = r["spec"]
    if kind == "names":
        return REPLAY_NAME % {"root": common.ROOT, "name": r["cex"]["values"][0]}
    if kind == "parr":
        return REPLAY_STR.replace("c15.string_case(*%(spec)r)", "c15.parray_case(%(spec)r)") % {"root": common.ROOT, "spec": spec}
    if kind == "str":
        return REPLAY_STR % {"root": common.ROOT, "spec": spec}
    if kind == "load":
        return _script.REPLAY % {"root": common.ROOT, "mod": MOD, "spec": spec, "vals": r["cex"]["values"]}
    from . import c01
    return c01.REPLAY % {"root": common.ROOT, "spec": ("c15", spec), "vals": r["cex"]["values"]}


def main():
    t = common.tier()
    rep = common.Report(PID, "model_checking")
    rep.rule = ("one case = (tdm skeleton, load | round trip) run symbolically with all array elements/literals as solver variables, "
                "or one concrete string-argument case; distinct = distinct (skeleton, part)")
    rep.bounds = {"p-arrays": "1-3 per script, names p0 p1 p12 p007 p3, 1xn n<=3 and 2x2", "dtypes": "int float complex", "strings": STRINGS,
                  "p-arrays stored through the API": sorted(_parrays())}
    rep.assumptions = [
        "reference: by-name delivery iff program type is tdm and the array name is p followed by digits (bbverif/ref/interp.py)",
        "string-argument cases are concrete (no solver)",
        "a string argument spelled like an undeclared p-name ('p1' without an array p1) cannot be told apart from a by-name reference: see known findings",
    ]
    jobs = [("load", s) for s in SCRIPTS] + [("rt", s) for s in SCRIPTS]
    jobs += [("str", (s, slot, d)) for s in STRINGS for slot in ("pos", "kw") for d in (False, True)]
    jobs += [("parr", n) for n in _parrays()]
    results = U.run_parallel(run_job, jobs) + [names_case()]
    rep.bounds["names"] = "all sentences of NAME up to 8 characters (z3 strings) for is_ptype / _is_ptype_reference; natively every name of <= 4 characters over p 0 1 9 _ x P"
    U.collect(rep, results, key_fn=finding_key, replay_fn=replay_src,
              sample_fn=lambda r: {"case": r.get("name"), "script": r.get("text"), "paths": r["paths"]})
    return rep.finish()


if __name__ == "__main__":
    sys.exit(main())
