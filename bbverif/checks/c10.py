"""C10 - ungrammatical scripts always raise BlackbirdSyntaxError at the offending token.

O1 (E1, z3)  a token sequence passes the shipped parser automaton iff blackbird.g4 derives it (all sequences <= N), and
             the shipped lexer's rules equal the grammar's (strings <= M): non-sentences reach the error listener,
             sentences never do (trusted: the antlr4 runtime reports every non-sentence of L(ATN)).
O2 (E2, z3)  the real BlackbirdErrorListener.syntaxError is executed on parser-error states harvested from the real
             parser (every single-token deletion / substitution / insertion / adjacent swap / truncation of a corpus of
             sentences), with the message, the offending text (symbolic strings) and line/column (symbolic ints) free:
             on every path a BlackbirdSyntaxError (no other class, no return) whose text starts with
             'Blackbird SyntaxError (line {line}:{column+1})' must be raised.
O3 (concrete) every mutant of the corpus goes through blackbird.loads: non-sentences (decided by the CFG encoding on the
             mutant's token types) must raise BlackbirdSyntaxError carrying the line and 1-based column of the token the
             parser reports; a mutant that is still a sentence must not fail in the syntax stage.
The lower bound on the reported position (never earlier than the first token that makes the text ungrammatical) is
checked on every mutant against a viable-prefix computation on the grammar (concrete); it is not decided for all inputs.
"""
import ast
import os
import random
import sys
import time

import z3

from .. import common
from ..atnsmt import lang as langmod, cfg, atns
from ..pysym import engine, proxies as P, terms as T, strings as S
from . import _util as U, c14

PID = "C10"
MOD = "bbverif.checks.c10"

CORPUS = [
    "name prog\nversion 1.0\ntarget X8 (shots=10, flag=True)\ntype tdm (copies=2)\n\nfloat x = 0.5\nint n = 2\nDgate(x, phi=-x*2) | n\nVac | [0, 1]\n",
    "name a\nversion 1.0\n\ncomplex array A[1, 2] =\n    1+2j, -0.5j\nfloat array B =\n    1.0, 2.0\n    3.0, 4.0\nGate(A, k=B) | (0, 1)\nMeasureFock() | 0\n",
    "name b\nversion 1.0\n\nfor int i in 0:3:1\n    Rgate(sin(pi/2)**2, q0) | i\n    Vac | i\nfor float f in [0.5, 1.5]\n    Dgate(f) | 0\n",
    "name c\nversion 1.0\ninclude \"lib.xbb\"\n\nstr s = \"txt\"\nbool b = False\nGate(s, b, vals=[1, 2.5, \"a\"], e=[]) | 3\nDgate({alpha}, {beta}*2) | 1\n",
    "name d\nversion 1.0\n\nint array p0 =\n    1, 2\nfloat array W[2, 2] =\n    {w}\nGate(p0[1], (1+2)*3/4 - 5) | 0\nMeasureHomodyne(phi=0.1, select=q1) | [0]\n",
    "name e\nversion 1.0\ntarget 2.x\n\nVac | 0\n",
    # several constructs in one place: template parameters inside list-valued keyword arguments inside a loop body, registers
    # and functions in keyword lists of a Measure operation, options of a type line with lists
    "name f\nversion 1.0\ntype tdm (shifts=[1, 2], names=[\"a\"])\n\nfor int m in [0, 1]\n    Op(a=[{p}, 1, 2*{q}], b={q}) | m\n    MeasureHomodyne(select=[{p}, 0.1], phi=sin(q0)) | [m, 2]\nOp({p}, k=[1, {r}]) | 0\n",
]
SUBST = ["NAME", "INT", "FLOAT", "COMMA", "NEWLINE", "LBRAC", "RBRAC", "ASSIGN", "APPLY", "LSQBRAC", "RSQBRAC", "PLUS", "STR", "TAB", "FOR", "TYPE_FLOAT", "ANY", "COLON",
         "LBRACE", "PI", "TIMES", "PROGNAME", "REGREF", "MEASURE", "DEVICE", "PERIOD", "QUOTE", "SEQUENCE", "BOOL", "TYPE_ARRAY", "IN", "PWR"]
WEIRD = [";", "[", "]", "\\", "$", "@", "&", "%", "~", "`", "?", "!", "^"]


def mutants(lg, text, tier, rnd):
    """(description, mutant text) for single-token edits of a sentence"""
    toks = lg.real_tokens_pos(text)
    out = []
    spans = []
    # character offsets of tokens
    lines = text.split("\n")
    offs = [0]
    for l in lines:
        offs.append(offs[-1] + len(l) + 1)
    for (nm, tx, ln, col) in toks:
        a = offs[ln - 1] + col
        spans.append((a, a + len(tx), nm, tx))
    idxs = list(range(len(spans)))
    for i in idxs:
        a, b, nm, tx = spans[i]
        out.append(("delete %d %s" % (i, nm), text[:a] + text[b:]))
        subs = SUBST if tier == "thorough" else rnd.sample(SUBST, 5)
        for s in subs:
            if s != nm:
                out.append(("substitute %d %s->%s" % (i, nm, s), text[:a] + langmod.CANON[s] + text[b:]))
        ins = SUBST if tier == "thorough" else rnd.sample(SUBST, 3)
        for s in ins:
            out.append(("insert %s before %d" % (s, i), text[:a] + langmod.CANON[s] + " " + text[a:]))
        if i + 1 < len(spans):
            a2, b2, nm2, tx2 = spans[i + 1]
            out.append(("swap %d %d" % (i, i + 1), text[:a] + tx2 + text[b:a2] + tx + text[b2:]))
        out.append(("truncate before %d" % i, text[:a]))
        if i % 7 == 0:
            out.append(("insert char %r before %d" % (WEIRD[i % len(WEIRD)], i), text[:a] + WEIRD[i % len(WEIRD)] + " " + text[a:]))
    return out


class Stop(Exception):
    pass


def harvest(lg, text):
    """first syntax error event of the real parser on text, or None"""
    import antlr4
    from antlr4.error.ErrorListener import ErrorListener
    ev = {}

    class Rec(ErrorListener):
        def syntaxError(self, recognizer, offendingSymbol, line, column, msg, e):
            ev.update(recognizer=recognizer, sym=offendingSymbol, line=line, column=column, msg=msg, e=e)
            raise Stop()

    lexer = lg.L.blackbirdLexer(antlr4.InputStream(text))
    lexer.removeErrorListeners()
    stream = antlr4.CommonTokenStream(lexer)
    parser = lg.P.blackbirdParser(stream)
    parser.removeErrorListeners()
    parser.addErrorListener(Rec())
    try:
        parser.start()
    except Stop:
        pass
    return ev or None


def state_key(ev):
    ctx = ev["e"].ctx if ev["e"] else ev["recognizer"]._ctx
    chain = []
    c = ctx
    while c is not None:
        kids = tuple(type(k).__name__.replace("Context", "").replace("TerminalNodeImpl", "t").replace("ErrorNodeImpl", "err") for k in (c.children or []))
        chain.append((type(c).__name__, kids if c is ctx else len(kids)))
        c = c.parentCtx
    shape = ev["msg"].split(" ")[0]
    return (tuple(chain), ev["e"] is None, shape)


MSG_PREFIXES = ["mismatched input ", "no viable alternative at input ", "extraneous input ", "missing "]


def module_string_constants():
    src = open(os.path.join(atns.PYDIR, "error.py")).read()
    out = set()
    for node in ast.walk(ast.parse(src)):
        if isinstance(node, ast.Constant) and isinstance(node.value, str) and len(node.value) <= 3:
            out.add(node.value)
    return sorted(out)


def o2_state(arg):
    """symbolic run of the real syntaxError on one harvested error state"""
    text, desc = arg
    out = {"spec": desc, "text": text, "result": "holds", "paths": 0, "stats": None, "funcs": [], "reach": 0, "name": "error state of: %s" % desc}
    lg = _lang()
    ev = harvest(lg, text)
    if ev is None:
        out.update(result="skipped", why="no syntax error")
        return out
    from blackbird.error import BlackbirdErrorListener, BlackbirdSyntaxError
    consts = module_string_constants()
    E = engine.Engine(max_paths=400, timeout_ms=20000, cache=_QCACHE)
    line, col = z3.Int("line"), z3.Int("column")
    msg, txt = z3.String("msg"), z3.String("offending_text")
    # message and offending text are completely free strings (a superset of what DefaultErrorStrategy can produce)
    E.base = [line >= 1, col >= 0]

    class Sym:
        pass

    def run():
        S.reset()
        P.reset_registry()
        sym = Sym()
        sym.text = S.SStr(txt, consts, "text")
        sl = P.SNum(T.V("int", line), int)
        sc = P.SNum(T.V("int", col), int)
        try:
            BlackbirdErrorListener().syntaxError(ev["recognizer"], sym, sl, sc, S.SStr(msg, consts, "msg"), ev["e"])
        except BlackbirdSyntaxError as e:
            if type(e) is not BlackbirdSyntaxError:
                return ("wrong class", type(e).__name__)
            m = e.args[0] if e.args else ""
            want = "Blackbird SyntaxError (line %s:%s)" % (P.REG.lexeme(T.V("int", line), "int"), P.REG.lexeme(T.V("int", col + 1), "int"))
            if not (isinstance(m, str) and m.startswith(want)):
                return ("wrong text", str(m)[:120])
            return ("ok", None)
        return ("returned", None)

    with U.coverage(out["funcs"]):
        try:
            paths = E.explore(run)
        except engine.PathLimit as e:
            out.update(result="inconclusive", why=str(e))
            return out
    out["paths"] = len(paths)
    out["stats"] = E.stats
    bad = None
    for pth in paths:
        if pth.kind == "abort":
            out.update(result="inconclusive", why="abort: %s" % pth.value)
            continue
        out["reach"] += 1
        if pth.kind == "exc":
            bad = "syntaxError raises %s: %s" % (type(pth.value).__name__, str(pth.value)[:100])
        elif pth.value[0] != "ok":
            bad = "syntaxError %s %s" % pth.value
        if bad:
            break
    if bad:
        # replay: the harvested text through the public API
        r = concrete_text(text, lg)
        if isinstance(r, dict):
            r["symbolic_what"] = bad
            out.update(result="violation", cex=r)
        else:
            out.setdefault("unconfirmed", []).append({"what": bad, "text": text[-200:]})
    return out


_L = {}
_QCACHE = {}


def _lang():
    if "lg" not in _L:
        _L["lg"] = langmod.Lang()
    return _L["lg"]


def concrete_text(text, lg=None):
    """O3 on one text: dict on violation, None if fine"""
    import blackbird
    import blackbird.auxiliary as aux
    from blackbird.error import BlackbirdSyntaxError
    lg = lg or _lang()
    ev = harvest(lg, text)
    types = [lg.tok_ids[nm] for (nm, tx, ln, c) in lg.real_tokens_pos(text)]
    sentence = cfg.concrete_derives(lg.parser_G(), lg.rule_ids["start"], types + [0])
    aux._VAR.clear()
    aux._PARAMS.clear()
    exc = None
    try:
        import warnings
        with warnings.catch_warnings():
            warnings.simplefilter("ignore")
            blackbird.loads(text)
    except Exception as e:  # noqa
        exc = e
    finally:
        aux._VAR.clear()
        aux._PARAMS.clear()
    base = {"text": text, "values": []}
    if not sentence:
        if exc is None:
            return dict(base, what="an ungrammatical script is loaded without error", observed="a program", expected="BlackbirdSyntaxError")
        if type(exc) is not BlackbirdSyntaxError:
            return dict(base, what="an ungrammatical script raises %s instead of BlackbirdSyntaxError" % type(exc).__name__,
                        observed="%s: %s" % (type(exc).__name__, str(exc)[:200]), expected="BlackbirdSyntaxError")
        if ev is not None:
            want = "(line %d:%d)" % (ev["line"], ev["column"] + 1)
            m = str(exc.args[0]) if exc.args else ""
            if want not in m:
                return dict(base, what="the message does not carry the line and 1-based column of the offending token", observed=m[:200], expected=want)
            # never earlier than the first token that makes the text ungrammatical (viable-prefix computation on the grammar NFAs)
            tp = lg.real_tokens_pos(text)
            k0 = cfg.first_offending_index(lg.parser_G(), lg.rule_ids["start"], types + [0])
            if ev["sym"].type == -1:
                ri = len(tp)
            else:
                ri = next((i for i, (nm, tx, ln, c) in enumerate(tp) if (ln, c) == (ev["line"], ev["column"])), None)
            if k0 is not None and ri is not None and ri < k0:
                return dict(base, what="the reported token comes before the first token that makes the text ungrammatical",
                            observed="token index %d at %s" % (ri, want), expected="index >= %d" % k0)
        return None
    # still a sentence: the syntax stage must not fail
    if ev is not None:
        return dict(base, what="a sentence of the grammar is reported as a syntax error by the parser", observed=ev["msg"], expected="no syntax error")
    return None


REPLAY = '''#!/usr/bin/env python
# C10 replay: the text through blackbird.loads; ungrammatical text must raise BlackbirdSyntaxError with line:col+1 of the offending token
import sys; sys.path.insert(0, %(root)r)
from bbverif.checks import c10
r = c10.concrete_text(%(text)r)
if r is None:
    print("as demanded"); sys.exit(0)
print(r["text"]); print("what    :", r["what"]); print("observed:", r["observed"]); print("expected:", r["expected"]); sys.exit(1)
'''


def deep_case(depth, kind):
    """an error deep inside nested brackets / signs / powers (ungrammatical by construction: two adjacent numbers) must still
    be reported as BlackbirdSyntaxError at the second number, provided the well-formed script of the same depth loads"""
    import blackbird
    from blackbird.error import BlackbirdSyntaxError
    if kind.startswith("brackets"):
        good, bad = "(" * depth + "1" + ")" * depth, "(" * depth + "1 7" + ")" * depth
    elif kind.startswith("signs"):
        good, bad = "-" * depth + "1", "-" * depth + "1 7"
    else:
        good, bad = "2**" * depth + "1", "2**" * depth + "1 7"
    kind, _, where = kind.partition("/")
    pre, post, line = {"": ("Dgate(", ") | 0\n", 4), "variable": ("float x = ", "\n", 4), "array row": ("float array A =\n    0.5, ", "\n", 5)}[where]
    head = "name deep\nversion 1.0\n\n" + pre
    import sys
    old_limit = sys.getrecursionlimit()
    sys.setrecursionlimit(1000)        # the interpreter's default (this process runs with a much higher limit)
    try:
        return _deep(blackbird, BlackbirdSyntaxError, head, good, bad, pre, post, line, depth, kind, where)
    finally:
        sys.setrecursionlimit(old_limit)


def _deep(blackbird, BlackbirdSyntaxError, head, good, bad, pre, post, line, depth, kind, where):
    try:
        blackbird.loads(head + good + post)
    except RecursionError:
        return "skip"
    except Exception:  # noqa (overflow of the value etc.: the syntax stage was passed)
        pass
    text = head + bad + post
    col = len(pre.split("\n")[-1]) + bad.index(" 7") + 1
    base = {"text": "an error at nesting depth %d (%s %s): %s...%s" % (depth, kind, where, text[:60], text[-30:]), "values": [depth, kind]}
    try:
        blackbird.loads(text)
    except BlackbirdSyntaxError as e:
        m = str(e.args[0]) if e.args else ""
        if "(line %d:%d)" % (line, col + 1) not in m:
            return dict(base, what="the message does not carry the position of the offending token", observed=m[:160], expected="(line %d:%d)" % (line, col + 1))
        return None
    except BaseException as e:  # noqa
        return dict(base, what="an ungrammatical script raises %s instead of BlackbirdSyntaxError" % type(e).__name__, observed="%s: %s" % (type(e).__name__, str(e)[:120]), expected="BlackbirdSyntaxError")
    return dict(base, what="an ungrammatical script is loaded without error", observed="a program", expected="BlackbirdSyntaxError")


REPLAY_DEEP = '''#!/usr/bin/env python
import sys; sys.path.insert(0, %(root)r)
from bbverif.checks import c10
r = c10.deep_case(%(depth)r, %(kind)r)
if r in (None, "skip"):
    print("as demanded"); sys.exit(0)
print(r["text"]); print("what    :", r["what"]); print("observed:", r["observed"]); print("expected:", r["expected"]); sys.exit(1)
'''


def o3_chunk(chunk):
    lg = _lang()
    out = []
    for desc, text in chunk:
        r = concrete_text(text, lg)
        ev = harvest(lg, text)
        out.append((desc, text, r, state_key(ev) if ev else None))
    return out


def finding_key(r):
    w = r["cex"]["what"]
    obs = r["cex"].get("observed", "")
    import re
    return (w + " | " + re.sub(r"\d+", "N", obs.split("\n")[0])[:80])


def main():
    t = common.tier()
    rep = common.Report(PID, "model_checking")
    b = {"quick": {"N": 12, "M": 16}, "thorough": {"N": 16, "M": 32}}[t]
    rep.bounds = dict(b, corpus=len(CORPUS))
    rep.rule = ("O1: one case = one solver query (CFG equivalence per length / lexer rule); O2: one case = one distinct parser-error state "
                "(context class, children, parent chain, recovery kind, message kind) with message text, offending text, line and column symbolic; "
                "O3: one case = one mutant text through loads (concrete)")
    rep.assumptions = [
        "the antlr4 runtime reports a syntax error exactly for the non-sentences of L(ATN) (ALL(*)), and calls the installed listener",
        "error states are harvested from the real parser on single-token mutants of the corpus (the state space is sampled, the values in a state are symbolic)",
        "message text and offending text are completely free strings (a superset of what the runtime can produce)",
        "the reported token is compared with the first offending token (Earley-style viable-prefix computation on the grammar NFAs) for the mutants only: concrete, not decided for all inputs",
    ]
    rnd = random.Random(common.seed())
    lg = langmod.Lang()
    # O1
    try:
        c14.o2_cfg(rep, lg, "start", b["N"])
        c14.o1_lexer(rep, lg, b["M"])
    except common.HarnessError as e:
        rep.obligation("O1", "inconclusive", why=str(e))
    # corpus and mutants
    texts = []
    for base in CORPUS:
        ev = harvest(lg, base)
        if ev is not None:
            rep.obligation("corpus script is a sentence", "inconclusive", why=ev["msg"])
            continue
        texts += mutants(lg, base, t, rnd)
    rep.extra["mutants"] = len(texts)
    chunks = [texts[i:i + 60] for i in range(0, len(texts), 60)]
    res = common.pmap(o3_chunk, chunks)
    states = {}
    nviol = 0
    nsent = 0
    for ch in res:
        for desc, text, r, key in ch:
            rep.evaluations += 1
            rep.validated += 1
            if key is None:
                nsent += 1
            else:
                rep.distinct.add(key)
                states.setdefault(key, (text, desc))
            if isinstance(r, dict):
                nviol += 1
                fake = {"cex": r}
                k = finding_key(fake)
                known = any(common._match(f, k, r["what"]) for f in rep.known)
                if known or len(rep.violations) < 4:
                    if known:
                        rep.violation(k, r["what"])
                    else:
                        src = REPLAY % {"root": common.ROOT, "text": text}
                        d = os.path.join(common.REPLAYS, PID)
                        os.makedirs(d, exist_ok=True)
                        pth = os.path.join(d, "o3_%03d.py" % len(rep.violations))
                        open(pth, "w").write(src)
                        ok, outp = U.confirm_replay(pth)
                        if ok:
                            rep.violation(k, "%s\nmutation: %s\n%s\nobserved: %s\nexpected: %s" % (r["what"], desc, text, r["observed"], r["expected"]), src, "o3_%03d" % len(rep.violations))
                        else:
                            os.unlink(pth)
    rep.obligation("O3 %d mutants through loads: class and position of the error" % len(texts), "holds" if nviol == 0 else "violated", violating=nviol, still_sentences=nsent)
    # errors deep inside nested expressions (concrete; the generated parser is recursive descent)
    ndeep = 0
    for kind in ("brackets", "signs", "powers", "brackets/variable", "brackets/array row", "signs/variable", "powers/array row"):
        for depth in (10, 40, 80, 120, 160, 200, 250, 300, 350, 400, 450, 500, 600, 750, 900):
            r = deep_case(depth, kind)
            if r == "skip":
                continue
            ndeep += 1
            rep.validated += 1
            if isinstance(r, dict) and len(rep.violations) < 6:
                rep.violation("deep %s: %s" % (kind, r["what"].split(":")[0]), "%s\n%s\nobserved: %s\nexpected: %s" % (r["what"], r["text"], r["observed"], r["expected"]),
                              REPLAY_DEEP % {"root": common.ROOT, "depth": depth, "kind": kind}, "deep_%s_%d" % (kind.replace("/", "_").replace(" ", "_"), depth))
    rep.obligation("O3b errors at nesting depths 10..900 (brackets / signs / powers; depths the parser itself cannot reach are skipped): %d cases" % ndeep,
                   "holds" if not any(v.get("key", "").startswith("deep") for v in rep.violations) else "violated")
    rep.extra["distinct_error_states"] = len(states)
    # O2 on one representative text per distinct state
    jobs = [(text, desc) for key, (text, desc) in sorted(states.items(), key=lambda kv: repr(kv[0]))]
    results = U.run_parallel(o2_state, jobs)
    U.collect(rep, results, key_fn=lambda r: "O2 " + r["cex"]["symbolic_what"].split(":")[0] + " | " + finding_key(r),
              replay_fn=lambda r: REPLAY % {"root": common.ROOT, "text": r["cex"]["text"]},
              sample_fn=lambda r: {"error_state_of": r["spec"], "paths": r["paths"]})
    return rep.finish()


if __name__ == "__main__":
    sys.exit(main())
