"""C06 - a for-loop is equivalent to its textual unrolling.

Range headers a:b and a:b:c have *symbolic* a, b, c (the shadowed `range` forks on the trip count, the reference
forks on its own reading of the range: a, a+c, ... below b); value lists in the three bracket styles carry
symbolic values; bodies of 1-3 statements use the loop variable in modes, arguments, keyword arguments and array
indices; statements before and after; use of the loop variable after the loop must be refused.
"""
import itertools
import sys

import z3

from .. import common
from . import _script, _util as U

PID = "C06"
MOD = "bbverif.checks.c06"

BODIES = {
    "int": ["mode", "args", "index", "mode+args", "three", "func", "index+func"],
    "float": ["args", "args2", "func"],
    "bool": ["plain"],
    "str": ["plain"],
}


def body_lines(kind, lv, var, m):
    if kind == "mode":
        return ["    Vac | %s" % var]
    if kind == "args":
        return ["    Dgate(%s*%s, k=%s) | %s" % (var, lv.float(), var, m())]
    if kind == "args2":
        return ["    Dgate(%s) | %s" % (var, m()), "    Sgate(-%s/%s) | %s" % (var, lv.float(), m())]
    if kind == "index":
        return ["    Rgate(A[%s]) | %s" % (var, m())]
    if kind == "index+func":
        # the loop variable inside an array index inside a function call / a list-valued keyword argument / a power
        return ["    Rgate(sin(A[%s]), vals=[A[%s], exp(A[%s])*%s], k=-A[%s]**2) | %s" % (var, var, var, var, var, m())]
    if kind == "mode+args":
        return ["    Vac | %s" % var, "    Xgate(%s+%s) | [%s, %s]" % (var, lv.int(), var, m())]
    if kind == "three":
        return ["    Agate | %s" % var, "    Bgate(%s) | %s" % (var, m()), "    Cgate(x=[%s, %s]) | %s" % (var, lv.int(), m())]
    if kind == "func":
        return ["    Rgate(sin(%s*%s), k=exp(%s)) | %s" % (var, lv.float(), var, m()), "    Dgate(sqrt(%s+%s)) | %s" % (var, lv.float(), m())]
    if kind == "plain":
        return ["    Gate(%s, key=%s) | %s" % (var, var, m())]
    raise ValueError(kind)


def gen(spec, lv):
    L = ["name c06", "version 1.0", ""]
    modes = []

    def m():
        t = lv.int()
        if lv.symbolic:
            modes.append(lv.vars[-1][2])
        return t

    head, lt, hopt, body, before, after = spec
    if head == "two":
        # several loops in sequence that reuse the variable name with other values (each loop is unrolled over its own values)
        L += ["for %s i in [%s, %s]" % (lt, lv.int(), lv.int()) if lt == "int" else "for %s i in [%s, %s]" % (lt, lv.float(), lv.float())]
        L += body_lines(body, lv, "i", m)
        L += ["for %s i in %s:%s" % (lt, lv.int(), lv.int())]
        L += body_lines(body, lv, "i", m)
        L += ["for %s i in [%s]" % (lt, lv.int() if lt == "int" else lv.float()), "    Zgate(%s) | %s" % ("i", m())]
        pre = [z3.Distinct(modes)] if lv.symbolic and len(modes) > 1 else []
        return {"text": "\n".join(L) + "\n", "pre": pre, "max_paths": 1500}
    if "index" in body:
        L += ["float array A =", "    %s, %s" % (lv.float(), lv.float()), "    %s, %s" % (lv.float(), lv.float())]
    if before:
        L.append("Xgate(%s) | %s" % (lv.float(), m()))
    if head == "range":
        hdr = "%s:%s" % (lv.int(), lv.int())
        if hopt == "step":
            hdr += ":%s" % lv.int()
    else:
        br, kinds = hopt
        vals = []
        for k in kinds:
            if k == "int":
                vals.append(lv.int())
            elif k == "float":
                vals.append(lv.float())
            elif k == "intexpr":
                vals.append("%s+%s*2" % (lv.int(), lv.int()))
            elif k == "negint":
                vals.append("-%s" % lv.int())
            elif k == "str":
                vals.append('"abc"')
            elif k == "True":
                vals.append("True")
            elif k == "False":
                vals.append("False")
            elif k == "complex":
                vals.append(lv.complex("bj"))
        hdr = {"sq": "[%s]", "rb": "(%s)", "bare": "%s"}[br] % ", ".join(vals)
    L.append("for %s i in %s" % (lt, hdr))
    L += body_lines(body, lv, "i", m)
    if after == "stmt":
        L.append("Zgate(%s) | %s" % (lv.float(), m()))
    elif after == "use":
        L.append("Zgate(i) | %s" % m())
    elif after == "decl+stmt":
        L.append("float z = %s" % lv.float())
        L.append("Zgate(z) | %s" % m())
    pre = []
    if lv.symbolic and len(modes) > 1:
        pre.append(z3.Distinct(modes))
    g = {"text": "\n".join(L) + "\n", "pre": pre, "max_paths": 1500}
    if head == "list" and lt in ("int", "float") and any(k in ("True", "False") for k in hopt[1]):
        # a boolean listed in an int / float loop: "converted to the declared type" (the variable is the int 1 / the float 1.0, never
        # the bool) or "not of the loop type: refused" - the property allows both readings, the check accepts both and nothing else
        g["refusal_also_ok"] = True
    return g


def gen_specs(tier, seed):
    specs = []
    afters = ["none", "stmt", "use", "decl+stmt"]
    for lt in ("int", "float"):
        for hopt in ("nostep", "step"):
            for body in BODIES[lt]:
                for before in (False, True):
                    for after in afters:
                        specs.append(("range", lt, hopt, body, before, after))
    for lt, body in ((("int", "mode"), ("float", "args")) if tier == "quick" else (("int", "mode"), ("int", "args"), ("float", "args"), ("int", "mode+args"))):
        specs.append(("two", lt, None, body, False, "none"))
    lists = {
        "int": [("int",), ("int", "int"), ("int", "intexpr", "int"), ("negint", "int"), ("float",), ("int", "float"), ("str",), ("int", "str"), ("complex",),
                ("True",), ("True", "False", "int"), ("int", "True")],
        "float": [("float",), ("float", "int"), ("int", "float", "float"), ("str",), ("complex", "float"), ("True", "float"), ("float", "False")],
        "bool": [("True",), ("True", "False"), ("False", "False", "True"), ("str",)],
        "str": [("str",), ("str", "str"), ("int",), ("str", "float")],
    }
    for lt, kls in lists.items():
        for kinds in kls:
            for br in ("sq", "rb", "bare"):
                for body in BODIES[lt]:
                    if body == "index":
                        continue
                    if body == "func" and lt != "bool" and any(k in ("True", "False") for k in kinds):
                        continue    # a function of the *constant* 1 is a number in the code and an uninterpreted term in the model
                    for before, after in ((False, "none"), (True, "stmt"), (False, "use")):
                        if tier == "quick" and br != "sq" and (before or after != "none") and len(kinds) > 1:
                            continue
                        specs.append(("list", lt, (br, kinds), body, before, after))
    return specs


def main():
    t = common.tier()
    from ..pysym import stubs
    from ..ref import interp
    K = 3 if t == "quick" else 5
    rep = common.Report(PID, "model_checking")
    rep.rule = ("one case = one loop skeleton (header kind x loop type x value kinds/brackets x body x before/after) run symbolically; "
                "range bounds a, b, c are solver variables, trip count forked up to K")
    rep.bounds = {"trip count K": K, "list length": "<=3", "body statements": "<=3", "statements before/after": "<=1 (+ one declaration)"}
    rep.assumptions = [
        "range trip counts > K are outside the claim (assumed away in both the stub and the reference)",
        "INT literals cannot be negative in the grammar, so only non-negative steps are reachable; step 0 must be refused",
        "a number in a bool loop is not part of the claim; a boolean listed in an int / float loop must either be refused or bind the variable "
        "to the converted number (kind included: `A[i]`, modes and serialisation depend on it) - both readings of the property are accepted",
        "reference: bbverif/ref/interp.py forloop (unrolling with the variable bound to the converted value)",
    ]
    specs = gen_specs(t, common.seed())
    results = U.run_parallel(_run, [(K, s) for s in specs])
    U.collect(rep, results, key_fn=_script.default_key, replay_fn=_script.replay_src(MOD),
              sample_fn=lambda r: {"script": r["text"], "paths": r["paths"], "reference_cases": r.get("refcases")})
    return rep.finish()


def _run(arg):
    K, spec = arg
    from ..pysym import stubs
    from ..ref import interp
    stubs.RangeBound.K = K
    interp.Interp.K = K
    return _script.run_spec((MOD, spec))


if __name__ == "__main__":
    sys.exit(main())
