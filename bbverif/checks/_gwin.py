"""Skeletons enumerated by the solver from the grammar (C02 / C11).

The hand-written skeleton generators combine the statement shapes somebody thought of.  Here the shapes come from
blackbird.g4 itself: for a grammar rule (arguments, statement, expressionvar, forloop), a fixed left and right context and a
free window of k tokens over a small alphabet of token classes, z3 enumerates *every* sentence of the CFG encoding of the
grammar (AllSAT with blocking clauses, as in C14-O2v).  Each sentence is rendered to a script - NAME tokens by their
syntactic position (gate / keyword / array / variable from a declared pool that also contains an undeclared name), number
tokens as symbolic leaves - and run through the generic script driver: the real loads on proxies against the reference
interpreter, for all values of the leaves.  What the reference rejects must be refused by the implementation, what it
accepts must denote the same program.
"""
import time
import zlib

import z3

from .. import common
from ..atnsmt import cfg, lang as langmod
from ..pysym import skel
from . import _script

# window alphabets (token class names)
A_ARGS = ("NAME", "INT", "FLOAT", "STR", "BOOL", "COMMA", "ASSIGN", "LSQBRAC", "RSQBRAC", "MINUS", "TIMES")
A_MODES = ("INT", "NAME", "LBRAC", "RBRAC", "LSQBRAC", "RSQBRAC", "COMMA", "PLUS", "TIMES", "FLOAT")
A_DECL = ("INT", "FLOAT", "COMPLEX", "NAME", "MINUS", "PLUS", "TIMES", "DIVIDE", "LBRAC", "RBRAC")
# (float values in int loops are C06's / C11's subject with dedicated skeletons: their integrality conditions are costly)
A_LOOP = ("INT", "COLON", "LBRAC", "RBRAC", "LSQBRAC", "RSQBRAC", "COMMA", "MINUS", "NAME", "STR")
A_LOOPF = ("INT", "FLOAT", "LBRAC", "RBRAC", "LSQBRAC", "RSQBRAC", "COMMA", "MINUS", "NAME")

# region: (root rule, left context, alphabet, (kmin, kmax quick, kmax thorough), right context)
REGIONS = {
    "args": ("arguments", ("LBRAC",), A_ARGS, (0, 5, 6), ("RBRAC",)),
    "target-options": ("arguments", ("LBRAC",), A_ARGS, (0, 5, 5), ("RBRAC",)),
    "type-options": ("arguments", ("LBRAC",), A_ARGS, (0, 4, 5), ("RBRAC",)),
    "modes": ("statement", ("NAME", "APPLY"), A_MODES, (1, 6, 7), ("NEWLINE",)),
    "args+modes": ("statement", ("NAME", "LBRAC", "FLOAT", "COMMA", "NAME", "ASSIGN", "INT", "RBRAC", "APPLY"), A_MODES, (1, 4, 5), ("NEWLINE",)),
    "decl-int": ("expressionvar", ("TYPE_INT", "NAME", "ASSIGN"), A_DECL, (1, 4, 5), ()),
    "decl-float": ("expressionvar", ("TYPE_FLOAT", "NAME", "ASSIGN"), A_DECL, (1, 4, 5), ()),
    "decl-complex": ("expressionvar", ("TYPE_COMPLEX", "NAME", "ASSIGN"), A_DECL, (1, 3, 4), ()),
    "loop-int": ("forloop", ("FOR", "TYPE_INT", "NAME", "IN"), A_LOOP, (1, 6, 7), ("NEWLINE", "TAB", "NAME", "LBRAC", "NAME", "RBRAC", "APPLY", "NAME")),
    "loop-float": ("forloop", ("FOR", "TYPE_FLOAT", "NAME", "IN"), A_LOOPF, (1, 5, 6), ("NEWLINE", "TAB", "NAME", "LBRAC", "NAME", "RBRAC", "APPLY", "INT")),
}

HEADER = ["name g", "version 1.0"]
DECLS = ["int n = %(i)s", "float x = %(f)s", 'str s = "w"', "bool b = True", "float array A =", "    %(f)s, %(f)s, %(f)s"]
# one kind of irregularity per variant (a script with two faults may be refused for either)
POOLS = {0: ("n", "x"), 1: ("x", "undefd", "n"), 2: ("n", "n", "x"), 3: ("s", "n", "b", "x"), 5: ("n",), 6: ("n", "undefd"), 7: ("n", "s", "b")}


def enumerate_region(arg):
    """all sentences of one (region, k): list of token-name tuples (window only)"""
    region, k = arg
    lg = langmod.Lang()
    NG = lg.parser_G()
    root, pre, alphabet, _, post = REGIONS[region]
    T = lg.tok_ids
    n = len(pre) + k + len(post)
    toks = [z3.BitVec("g%d" % i, 8) for i in range(n)]
    cg = cfg.CFG(NG, toks, "G")
    sol = z3.Solver()
    for i, v in enumerate(pre):
        sol.add(toks[i] == T[v])
    for i, v in enumerate(post):
        sol.add(toks[len(pre) + k + i] == T[v])
    win = toks[len(pre):len(pre) + k]
    ids = [T[a] for a in alphabet]
    for t in win:
        sol.add(z3.Or([t == a for a in ids]))
    sol.add(cg.X(lg.rule_ids[root], 0, n))
    out = {"region": region, "k": k, "sentences": [], "sat": 0, "unsat": 0, "unknown": 0, "dt": 0.0, "complete": False}
    t0 = time.time()
    while True:
        r = str(sol.check())
        out[r if r in ("sat", "unsat") else "unknown"] += 1
        if r != "sat":
            out["complete"] = (r == "unsat")
            break
        mdl = sol.model()
        sent = [mdl.eval(t, model_completion=True).as_long() for t in win]
        out["sentences"].append(tuple(lg.tok_names[v] for v in sent))
        if not win:
            out["complete"] = True
            break
        sol.add(z3.Or([t != v for t, v in zip(win, sent)]))
    out["sentences"].sort()
    out["dt"] = time.time() - t0
    return out


def enumerate_all(tier):
    jobs = []
    for region, (_, _, _, (kmin, kq, kt), _) in REGIONS.items():
        for k in range(kmin, (kq if tier == "quick" else kt) + 1):
            jobs.append((region, k))
    jobs.sort(key=lambda j: -j[1])
    return common.pmap(enumerate_region, jobs)


class Sub(dict):
    def __init__(self, lv):
        self.lv = lv

    def __getitem__(self, k):
        return {"i": self.lv.int, "f": self.lv.float}[k[0]]()


def _render_tokens(names, lv, variant, modes_from=None, loopvar=None):
    """token names -> text pieces.  NAME by position: before ASSIGN a keyword, before '[' (in an expression) the array,
    else a variable from the pool of the variant."""
    pool = POOLS[variant]
    out = []
    nvar = 0
    nkw = 0
    mode_vars = []
    plain_modes = True
    idx_depth = 0
    for i, t in enumerate(names):
        if t == "LSQBRAC" and i > 0 and names[i - 1] == "NAME":
            idx_depth += 1
        elif t == "RSQBRAC" and idx_depth > 0:
            idx_depth -= 1
        nxt = names[i + 1] if i + 1 < len(names) else None
        in_modes = modes_from is not None and i >= modes_from
        if t == "NAME":
            if nxt == "ASSIGN":
                nkw += 1
                out.append("k%d" % nkw)
            elif nxt == "LSQBRAC":
                out.append("A")
            elif idx_depth > 0:
                out.append("n")     # inside an array index: always the int variable (one irregularity per script)
            else:
                if loopvar and (nvar + variant) % 3 == 2:
                    out.append(loopvar)
                else:
                    out.append(pool[nvar % len(pool)])
                nvar += 1
                if in_modes:
                    plain_modes = False
        elif t == "INT":
            out.append(lv.int())
            if in_modes and lv.symbolic:
                mode_vars.append(lv.vars[-1][2])
        elif t == "FLOAT":
            out.append(lv.float())
        elif t == "COMPLEX":
            out.append(lv.complex("bj"))
        elif t == "STR":
            out.append('"txt"')
        elif t == "BOOL":
            out.append("True" if (i + variant) % 2 == 0 else "False")
        else:
            out.append(langmod.CANON[t])
            if in_modes and t in ("PLUS", "TIMES"):
                plain_modes = False
    return out, mode_vars, plain_modes


def _join(parts):
    return " ".join(parts)


def gen(spec, lv):
    """spec = ('G', region, window token names, variant)"""
    _, region, win, variant = spec
    root, pre, alphabet, _, post = REGIONS[region]
    sub = Sub(lv)
    L = list(HEADER)
    decls = [l % sub if "%(" in l else l for l in DECLS]
    pre_c = []
    what = ["meta", "ops", "vars", "params"]
    if region in ("target-options", "type-options"):
        # names in metadata options are looked up before anything is declared: only literals and undeclared names occur
        parts, _, _ = _render_tokens(win, lv, 1 if variant else 0)
        parts = [("undefd" if p in ("n", "x", "s", "b", "A") and variant else ("7" if p in ("n", "x", "s", "b", "A") else p)) for p in parts]
        if region == "target-options":
            L.append("target dev (%s)" % _join(parts))
        else:
            L.append("target dev")
            L.append("type tdm (%s)" % _join(parts))
        L += [""] + decls + ["Vac | n"]
    elif region == "args":
        parts, _, _ = _render_tokens(win, lv, variant)
        L += [""] + decls + ["Gate(%s) | [n, %s]" % (_join(parts), lv.int()), "Vac | n"]
    elif region in ("modes", "args+modes"):
        parts, mvars, plain = _render_tokens(win, lv, 2 if variant == 0 else variant, modes_from=0)
        head = "Gate" if region == "modes" else "Gate(%s, k1=%s)" % (lv.float(), lv.int())
        L += [""] + decls + ["%s | %s" % (head, _join(parts))]
        if plain and lv.symbolic and len(mvars) > 0:
            what.append("modes")
            pre_c.append(z3.Distinct(mvars) if len(mvars) > 1 else z3.BoolVal(True))
            pre_c += [v >= 100 for v in mvars]
        elif not lv.symbolic and plain:
            what.append("modes")
    elif region.startswith("decl-"):
        parts, _, _ = _render_tokens(win, lv, variant)
        ty = region[5:]
        L += [""] + decls + ["%s v = %s" % (ty, _join(parts)), "Gate(v, k1=v) | n"]
    elif region.startswith("loop-"):
        ty = region[5:]
        # (float variables in an int loop: integrality conditions over products are costly and C06's subject)
        parts, _, _ = _render_tokens(win, lv, variant if ty == "float" else {0: 5, 1: 6, 3: 7}[variant])
        body = "    Gate(j) | %s" % ("j" if ty == "int" else lv.int())
        L += [""] + decls + ["for %s j in %s" % (ty, _join(parts)), body, "Vac | n"]
    text = "\n".join(L) + "\n"
    return {"text": text, "pre": pre_c, "what": tuple(what), "max_paths": 400}


def variants_for(region, win, tier="quick"):
    if "NAME" not in win and "BOOL" not in win:
        return (0,)
    if region in ("target-options", "type-options", "modes", "args+modes"):
        return (0, 1)
    return (0, 1, 3) if tier == "thorough" or len(win) <= 3 else (0, 1 + (zlib.crc32(" ".join(win).encode()) % 2) * 2)


def in_domain(region, win):
    """sentences outside the claim: a keyword argument with an empty list (`k=[]`) is dropped by the loader and the suite
    pins that (DESIGN section 9)"""
    for i in range(len(win) - 2):
        if win[i] == "ASSIGN" and win[i + 1] == "LSQBRAC" and win[i + 2] == "RSQBRAC":
            return False
    if region == "loop-int":
        # elements of the (float) array in an int loop: integrality of a negated / combined array element is costly for the
        # solver; float values in int loops are C06's and C11's subject
        for i in range(len(win) - 1):
            if win[i] == "NAME" and win[i + 1] == "LSQBRAC":
                return False
    return True


def classify(spec):
    """concrete run of the reference on default values: 'accept' (denotes a program: C02), 'reject' (must be refused: C11),
    or ('skip', why): the reference does not define the sentence (outside the claim)"""
    from ..ref import expr as RX
    w = _script.winit()
    lv0 = skel.Leaves()
    gen(spec, lv0)
    vals = [(0.5 + 0.75 * (i % 5) if k == "float" else 2 + (3 * i % 7)) for i, (_, k, _) in enumerate(lv0.vars)]
    lv = skel.Leaves(values=vals)
    text = gen(spec, lv)["text"]
    try:
        cases = _script.ref_cases(w, text, lv, False)
    except RX.RefError as e:
        return ("skip", "reference: %s" % e)
    except (ArithmeticError, ValueError):
        return "accept"
    except (TypeError, AttributeError) as e:
        # arithmetic on strings / booleans: no property says what it denotes or how it is refused
        return ("skip", "reference: %s" % e)
    return "reject" if cases[0][1][0] == "reject" else "accept"


def _classify_chunk(specs):
    return [classify(s) for s in specs]


def specs_for(rep, tier, want):
    """enumerate (recording the AllSAT obligations in the report), render, classify; returns the specs of class `want`"""
    gs = []
    for res in enumerate_all(tier):
        for q in ("sat", "unsat", "unknown"):
            rep.q[q] += res[q]
        rep.solver_s += res["dt"]
        rep.obligation("G %s: all %d sentences of the grammar with a free window of %d tokens enumerated (AllSAT on the CFG encoding)" % (res["region"], len(res["sentences"]), res["k"]),
                       "holds" if res["complete"] else "inconclusive")
        for win in res["sentences"]:
            if not in_domain(res["region"], win):
                continue
            for v in variants_for(res["region"], win, tier):
                gs.append(("G", res["region"], win, v))
    chunks = [gs[i:i + 200] for i in range(0, len(gs), 200)]
    cls = [c for ch in common.pmap(_classify_chunk, chunks) for c in ch]
    counts = {"accept": 0, "reject": 0, "skip": 0}
    why = {}
    for c in cls:
        k = c if isinstance(c, str) else "skip"
        counts[k] += 1
        if k == "skip":
            key = c[1].split(" at ")[0][:60]
            why[key] = why.get(key, 0) + 1
    rep.bounds["grammar-enumerated skeletons"] = (
        "%d sentences x name variants = %d scripts: %d denote a program (C02), %d must be refused (C11), %d outside the reference's domain; regions: %s"
        % (len({(g[1], g[2]) for g in gs}), len(gs), counts["accept"], counts["reject"], counts["skip"],
           "; ".join("%s window <= %d tokens over %d classes" % (k, v[3][1 if tier == "quick" else 2], len(v[2])) for k, v in REGIONS.items())))
    rep.extra["grammar_sentences_outside_reference_domain"] = dict(sorted(why.items(), key=lambda kv: -kv[1])[:12])
    return [g for g, c in zip(gs, cls) if c == want]


def run_gspec(arg):
    modname, spec = arg
    text = None
    try:
        r = _script.run_spec((modname, spec))
    except (TypeError, AttributeError) as e:
        return {"spec": spec, "result": "skipped", "why": "reference: %s" % e, "paths": 0, "stats": None, "funcs": [], "text": text}
    if r["result"] == "inconclusive" and str(r.get("why", "")).startswith(("vacuous", "reference:")):
        r["result"] = "skipped"
    return r
