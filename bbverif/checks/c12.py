"""C12 - each load is independent of every earlier load in the process.

One step from an *arbitrary pre-state* instead of enumerating histories: the process-wide tables _VAR / _PARAMS are
replaced by havoc tables in which any name may have been left behind by an earlier (failed) load, with a fresh symbolic
value of a forked type; the outcome of loading a script on every such path is compared with the outcome from empty
tables.  A differing path is replayed as a real two-load history against a pristine process.
Second part: returned programs share no mutable container with the tables or with each other (identity walk).
Third part (twin loads): without naming any state - a twin of the script (same skeleton, other symbolic values; optionally
failing at its end; optionally every concrete literal shifted by one) is loaded first, then the script, in one process
state; for all values of both, the second outcome must be the outcome of the script alone.  Each pair is also run
natively in freshly forked interpreters (identities and hashes are outside the proxies' reach).
Fourth part: concrete histories over real files (include chains rewritten, modification times preserved or going
backwards, same relative path in two directories).
"""
import ast
import os
import re
import sys

import numpy as np
import z3

from .. import common
from ..pysym import engine, proxies as P, stubs, terms as T, skel
from ..pysym.engine import cur
from . import _script, _util as U, _snap, c11, c02

PID = "C12"
MOD = "bbverif.checks.c12"
ABSENT = object()
PTYPE = re.compile(r"^p\d+$")


class HavocDict(dict):
    """_VAR with an arbitrary pre-state (until the code clears it)"""

    def __init__(self, havoc):
        dict.__init__(self)
        self.havoc = havoc
        self.pre = {}

    def _pre(self, k):
        if k not in self.pre:
            e = cur()
            if not isinstance(k, str) or not e.branch(z3.Bool("pre_var_has_%s" % k)):
                self.pre[k] = ABSENT
            else:
                if e.branch(z3.Bool("pre_var_%s_is_int" % k)):
                    v = P.SNum(T.V("int", z3.Int("pre_int_%s" % k)), int)
                elif e.branch(z3.Bool("pre_var_%s_is_float" % k)):
                    v = P.SNum(T.V("float", z3.Real("pre_float_%s" % k)), float)
                else:
                    v = "stale"
                self.pre[k] = v
                e.note("havoc", "_VAR", k, type(v).__name__ if isinstance(v, str) else v.tag.__name__)
        return self.pre[k]

    def __contains__(self, k):
        if dict.__contains__(self, k):
            return True
        return self.havoc and self._pre(k) is not ABSENT

    def __getitem__(self, k):
        if dict.__contains__(self, k):
            return dict.__getitem__(self, k)
        if self.havoc and self._pre(k) is not ABSENT:
            return self.pre[k]
        raise KeyError(k)

    def get(self, k, d=None):
        return self[k] if k in self else d

    def __delitem__(self, k):
        if dict.__contains__(self, k):
            return dict.__delitem__(self, k)
        if self.havoc and self._pre(k) is not ABSENT:
            self.pre[k] = ABSENT
            return
        raise KeyError(k)

    def pop(self, k, *d):
        if k in self:
            v = self[k]
            del self[k]
            return v
        if d:
            return d[0]
        raise KeyError(k)

    def clear(self):
        dict.clear(self)
        self.havoc = False
        self.pre = {}

    def _all(self):
        d = dict(dict.items(self))
        if self.havoc:
            for k, v in self.pre.items():
                if v is not ABSENT and k not in d:
                    d[k] = v
        return d

    def __iter__(self):
        return iter(self._all())

    def keys(self):
        return self._all().keys()

    def items(self):
        return self._all().items()

    def values(self):
        return self._all().values()

    def __len__(self):
        return len(self._all())


class HavocList(list):
    """_PARAMS with an arbitrary pre-state; reachable string members are p-type names only (listener.py appends
    array names only when is_ptype(name)); symbols left behind are not modelled"""

    def __init__(self, havoc):
        list.__init__(self)
        self.havoc = havoc
        self.pre = {}

    def _pre(self, k):
        if k not in self.pre:
            e = cur()
            ok = isinstance(k, str) and PTYPE.match(k) and e.branch(z3.Bool("pre_params_has_%s" % k))
            self.pre[k] = bool(ok)
            if ok:
                e.note("havoc", "_PARAMS", k, "str")
        return self.pre[k]

    def __contains__(self, k):
        if list.__contains__(self, k):
            return True
        return self.havoc and isinstance(k, str) and self._pre(k)

    def clear(self):
        list.clear(self)
        self.havoc = False
        self.pre = {}

    def _all(self):
        out = list(list.__iter__(self))
        if self.havoc:
            out += [k for k, v in self.pre.items() if v and k not in out]
        return out

    def __iter__(self):
        return iter(self._all())

    def __len__(self):
        return len(self._all())

    def remove(self, x):
        if list.__contains__(self, x):
            return list.remove(self, x)
        if self.havoc and isinstance(x, str) and self._pre(x):
            self.pre[x] = False
            return
        raise ValueError("list.remove(x): x not in list")


def install_tables(havoc):
    import blackbird.auxiliary as aux
    import blackbird.listener as lis
    v, p = HavocDict(havoc), HavocList(havoc)
    aux._VAR = lis._VAR = v
    aux._PARAMS = lis._PARAMS = p
    return v, p


# ----------------------------------------------------------------------------- specs
EXTRA = [
    # metadata options that mention names (evaluated before the program block is entered)
    ["name m1", "version 1.0", "target X8 (shots=foo)", "", "Vac | %(m)s"],
    ["name m2", "version 1.0", "target X8 (shots=%(i)s, cutoff=2*bar+%(i)s)", "", "Vac | %(m)s"],
    ["name m3", "version 1.0", "target X8", "type tdm (copies=baz, temporal_modes=%(i)s)", "", "Vac | %(m)s"],
    ["name m4", "version 1.0", "target X8 (vals=[%(i)s, foo])", "", "Dgate(%(f)s) | %(m)s"],
    # p-type names and ordinary variables of the same name in later programs
    ["name t1", "version 1.0", "type tdm (temporal_modes=2)", "", "int array p0 =", "    %(i)s, %(i)s", "Gate(p0) | %(m)s"],
    ["name t2", "version 1.0", "", "float p1 = %(f)s", "Dgate(p1) | %(m)s"],
    ["name t3", "version 1.0", "", "int array p7 =", "    %(i)s, %(i)s", "Gate(p7) | %(m)s"],
    ["name t4", "version 1.0", "", "Dgate({p2}, %(f)s) | %(m)s"],
    ["name t5", "version 1.0", "", "float x = %(f)s", "for int p3 in [%(m)s, %(m)s]", "    Dgate(x) | p3"],
    # valid programs using only their own names
    ["name v1", "version 1.0", "", "float x = %(f)s", "int n = %(m)s", "Dgate(x, k=x*2) | n", "Vac | [n, %(m)s]"],
    ["name v2", "version 1.0", "", "Dgate({a}, phi={b}) | %(m)s", "float y = {a}*2", "Sgate(y) | %(m)s"],
    ["name v3", "version 1.0", "", "for int i in [%(m)s, %(m)s]", "    Vac | i", "Dgate(%(f)s) | %(m)s"],
    # many arrays, all indexed; register transforms with negative integer coefficients and exponents
    ["name a5", "version 1.0", "", "float array A =", "    %(f)s, %(f)s", "float array B =", "    %(f)s, %(f)s", "float array C =", "    %(f)s, %(f)s", "float array D =", "    %(f)s, %(f)s",
     "float array E =", "    %(f)s, %(f)s", "float x = A[0]+B[1]", "Dgate(A[1], B[0]) | %(m)s", "Sgate(C[0]+D[1], k=E[0]) | %(m)s", "Rgate(x, E[1]*C[1]) | %(m)s"],
    ["name a6", "version 1.0", ""] + sum(([("float array A%d[2, 2] =" % k), "    %(f)s, %(f)s", "    %(f)s, %(f)s", "float x%d = A%d[0]" % (k, k), "float y%d = A%d[3]" % (k, k)] for k in range(6)), []) + [
        "Dgate(x0, y1) | %(m)s", "Sgate(x2*y3, k=A4[2]) | %(m)s", "Rgate(A5[1]+x5, y4) | %(m)s"],
    ["name a12", "version 1.0", ""] + sum(([("float array A%d =" % k), "    %(f)s, %(f)s", "float x%d = A%d[1]" % (k, k)] for k in range(12)), []) + ["Dgate(x0, x11) | %(m)s"],
    # the same source text evaluated in another variable environment (value lists, arguments and indices written with names only)
    ["name v4", "version 1.0", "", "int n = %(i)s", "float x = %(f)s", "for int i in [n, n+1, 2*n]", "    Dgate(x, k=x*2) | i", "for float t in [x, x/2]", "    Rgate(t) | n"],
    ["name v5", "version 1.0", "", "float array A =", "    %(f)s, %(f)s", "int k = 1", "float y = A[k]", "Dgate(y, A[0]) | k", "Gate(A, vals=[y, y*2]) | [k, 2*k]"],
    ["name r1", "version 1.0", "", "MeasureX | 0", "MeasureP | 1", "Dgate(-2*q0) | %(m)s", "Sgate(q0-2*q1, k=1/q1**2) | %(m)s", "Zgate(-q1) | %(m)s"],
    ["name r2", "version 1.0", "", "MeasureX | 0", "Dgate(-1*q0, %(f)s) | %(m)s", "Dgate(3*q0-1) | %(m)s"],
]


def gen(spec, lv):
    if spec[0] == "c11":
        return c11.gen(spec[1], lv)
    if spec[0] == "c02":
        return c02.gen(spec[1], lv)
    if spec[0] in ("c05", "c06", "c08", "c15"):
        import importlib
        return importlib.import_module("bbverif.checks." + spec[0]).gen(spec[1], lv)
    modes = []
    sub = c11.Sub(lv, modes)
    lines = [l % sub if "%(" in l else l for l in EXTRA[spec[1]]]
    pre = [z3.Distinct(modes)] if lv.symbolic and len(modes) > 1 else []
    return {"text": "\n".join(lines) + "\n", "pre": pre}


def gen_specs(tier, seed):
    specs = [("extra", i) for i in range(len(EXTRA))]
    for fi, (cls, slot, lines) in enumerate(c11.FAULTS):
        if cls in ("undefined", "reserved", "mode"):
            specs.append(("c11", (fi, 0, ())))
            specs.append(("c11", (fi, 1, (1, 2))))
            if tier == "thorough":
                for vs in ((0,), (2,), (3, 1), (2, 0)):
                    for pos in range(len(vs) + 1):
                        specs.append(("c11", (fi, pos, vs)))
    c2 = c02.gen_specs("quick", seed)
    step = 9 if tier == "quick" else 2
    specs += [("c02", s) for s in c2[::step]]
    return specs


# ----------------------------------------------------------------------------- worker
def outcome(pth):
    if pth.kind == "ok":
        return ("program", _snap.program(pth.value))
    return ("exception", type(pth.value).__name__, str(pth.value))


def run_spec(spec):
    w = _script.winit()
    bb = w["bb"]
    out = {"spec": spec, "result": "holds", "paths": 0, "stats": None, "why": None, "cex": None, "funcs": [], "reach": 0}
    lv = skel.Leaves()
    g = gen(spec, lv)
    text = g["text"]
    out["text"] = text

    def explore(havoc):
        E = engine.Engine(max_paths=600)
        E.reset_hooks.append(lambda: install_tables(havoc))
        E.base = list(lv.cons) + list(g.get("pre", []))
        res = E.explore(lambda: bb.loads(text))
        return E, res

    try:
        with U.coverage(out["funcs"]):
            E0, pristine = explore(False)
            E1, havoc = explore(True)
    except engine.PathLimit as e:
        out.update(result="inconclusive", why=str(e))
        return out
    finally:
        install_tables(False)
    out["paths"] = len(havoc) + len(pristine)
    out["stats"] = {k: E0.stats.get(k, 0) + E1.stats.get(k, 0) for k in E1.stats}
    nforks = 0
    for ph in havoc:
        if ph.kind == "abort":
            out.update(result="inconclusive", why="abort: %s" % ph.value)
            continue
        notes = [n for n in ph.notes if n and n[0] == "havoc"]
        nforks += len(notes)
        oh = outcome(ph)
        for pp in pristine:
            if pp.kind == "abort":
                out.update(result="inconclusive", why="abort (pristine): %s" % pp.value)
                continue
            r0, _ = E1.query(ph, z3.BoolVal(True), extra=pp.pc)
            if r0 == "unsat":
                continue
            if r0 != "sat":
                out.update(result="inconclusive", why="solver %s" % r0)
                continue
            out["reach"] += 1
            op = outcome(pp)
            if oh[0] != op[0]:
                diffs = [("outcome kind: %s with the pre-state, %s from empty tables" % (_d(oh), _d(op)), True)]
            elif oh[0] == "exception":
                diffs = [] if oh[1:] == op[1:] else [("exception: %s with the pre-state, %s from empty tables" % (_d(oh), _d(op)), True)]
            else:
                diffs = _snap.diff(oh[1], op[1])
            for where, cond in diffs:
                c = z3.BoolVal(True) if cond is True else cond
                r, mdl = E1.query(ph, c, extra=pp.pc)
                if r == "unsat":
                    continue
                if r != "sat":
                    out.update(result="inconclusive", why="solver %s" % r)
                    continue
                # candidate: replay as a real two-load history
                vals = lv.model_values(mdl)
                pre = []
                for n in notes:
                    tbl, name, kind = n[1], n[2], n[3]
                    if tbl == "_VAR":
                        if kind == "int":
                            v = mdl.eval(z3.Int("pre_int_%s" % name), model_completion=True).as_long()
                        elif kind == "float":
                            v = T._ratf(mdl.eval(z3.Real("pre_float_%s" % name), model_completion=True))
                        else:
                            v = "stale"
                        pre.append(("_VAR", name, kind, v))
                    else:
                        pre.append(("_PARAMS", name, "str", None))
                rr = concrete_history(spec, vals, pre, w)
                if isinstance(rr, dict):
                    rr["symbolic_what"] = where
                    out.update(result="violation", cex=rr)
                    return out
                out.setdefault("unconfirmed", []).append({"what": where, "text": text, "pre": repr(pre)})
    out["havoc_forks"] = nforks
    # second part: no shared mutable state between the returned program, the tables and a second load
    sh, ctext, cvals = shared_state(spec, lv, w)
    if sh:
        out.update(result="violation", cex={"what": sh, "text": ctext, "values": cvals, "observed": sh, "expected": "disjoint mutable containers", "pre": "shared"})
    return out


def _d(o):
    return o[0] if o[0] == "program" else "%s(%s)" % (o[1], o[2][:100])


def package_state_ids():
    """ids of the mutable containers reachable from module globals and class attributes of the blackbird package
    (whatever they are called: a returned program must not hold any of them)"""
    acc = {}
    for mname, m in list(sys.modules.items()):
        if not (mname == "blackbird" or mname.startswith("blackbird.")) or ".tests" in mname:
            continue
        for k, v in list(vars(m).items()):
            if k.startswith("__"):
                continue
            if isinstance(v, (dict, list, set, tuple, np.ndarray)):
                _snap.mutable_ids(v, acc)
            elif isinstance(v, type) and getattr(v, "__module__", "") == mname:
                for ck, cv in list(vars(v).items()):
                    if isinstance(cv, (dict, list, set, tuple, np.ndarray)):
                        _snap.mutable_ids(cv, acc)
    return acc


def _poison(prog):
    """change every mutable container reachable from a returned program in place"""
    for obj in list(_snap.mutable_ids(prog).values()):
        try:
            if isinstance(obj, dict):
                obj["__poison__"] = -97
            elif isinstance(obj, list):
                obj.append("__poison__")
            elif isinstance(obj, set):
                obj.add(-97)
            elif isinstance(obj, np.ndarray) and obj.size and obj.dtype != object:
                obj.flat[0] = -97
        except Exception:  # noqa
            pass


def shared_state_text(text):
    """concrete-structure check on one concrete script (identity walk + change-in-place, not a solver query)"""
    import blackbird
    import blackbird.auxiliary as aux
    try:
        p1 = blackbird.loads(text)
        p2 = blackbird.loads(text)
    except Exception:  # noqa
        aux._VAR.clear()
        aux._PARAMS.clear()
        return None
    i1, i2 = _snap.mutable_ids(p1), _snap.mutable_ids(p2)
    both = set(i1) & set(i2)
    if both:
        return "two loads of the same script return programs sharing %s" % sorted(type(i1[k]).__name__ for k in both)
    for tbl in (aux._VAR, aux._PARAMS):
        if id(tbl) in i1:
            return "the returned program shares the module table %s" % type(tbl).__name__
    pk = package_state_ids()
    inpk = set(i1) & set(pk)
    if inpk:
        return "the returned program holds module-level / class-level mutable objects of the package: %s" % sorted(type(pk[k]).__name__ for k in inpk)
    if len(aux._VAR) or len(aux._PARAMS):
        return "tables are not empty after a successful load: %r %r" % (dict(aux._VAR), list(aux._PARAMS))
    # whatever channel there may be: change every container of the first program in place, load again, compare with the
    # content the first program had
    s1 = _snap.program(p1)
    _poison(p1)
    _poison(p2)
    try:
        p3 = blackbird.loads(text)
    except Exception as e:  # noqa
        return "after the programs returned by earlier loads were modified in place, the same script raises %s: %s" % (type(e).__name__, e)
    d = _snap.diff(s1, _snap.program(p3))
    if d:
        return "after the programs returned by earlier loads were modified in place, the same script loads differently: %s" % d[0][0]
    return None


def shared_state_vals(spec, vals):
    text = gen(spec, skel.Leaves(values=vals))["text"]
    return shared_state_text(text), text


def shared_state(spec, lv, w):
    vals = [(0.5 + i if k == "float" else 3 + i) for i, (_, k, _) in enumerate(lv.vars)]
    return shared_state_vals(spec, vals) + (vals,)


FAILURES = ["Vac | name_that_is_not_defined_anywhere",      # BlackbirdSyntaxError (undefined name)
            "Vac | 0.5",                                     # a float as a mode
            "int zz_fail = 1+2j",                            # a complex value for an int variable
            "float array ZZ[3, 3] =\n    1, 2",              # a declared shape that does not fit
            "Dgate(1/0) | 0",                                # an arithmetic error
            "float array ZZi =\n    1, 2\nfor int zzk in 0:3\n    Dgate(ZZi[zzk]) | 0",   # IndexError inside a loop body
            "float array ZZj =\n    1, 2\nDgate(ZZj[7]) | 0"]  # IndexError outside a loop


def first_script(pre, failure=0):
    """a script that leaves exactly the given entries behind: it declares them and then fails (in one of several ways: a
    leak may depend on the kind of exception that ended the earlier load)"""
    L = ["name leftover", "version 1.0"]
    if any(p[0] == "_PARAMS" for p in pre):
        L.append("type tdm (temporal_modes=2)")
    L.append("")
    for tbl, name, kind, v in pre:
        if tbl == "_VAR":
            if kind == "int":
                L.append("int %s = %s" % (name, v) if v >= 0 else "int %s = -%s" % (name, -v))
            elif kind == "float":
                L.append("float %s = %r" % (name, float(v)) if v >= 0 else "float %s = -%r" % (name, -float(v)))
            else:
                L.append('str %s = "stale"' % name)
        else:
            L += ["int array %s =" % name, "    1, 2"]
    L.append(FAILURES[failure])
    return "\n".join(L) + "\n"


def concrete_history(spec, vals, pre, w=None, pristine_subprocess=False):
    for k in range(len(FAILURES)):
        r = _concrete_history(spec, vals, pre, k)
        if r is not None:
            return r
    return None


def _concrete_history(spec, vals, pre, failure):
    """second load after a failed first load vs. the same load from empty tables.  dict on mismatch."""
    import subprocess
    import blackbird
    import blackbird.auxiliary as aux
    lv = skel.Leaves(values=vals)
    text = gen(spec, lv)["text"]
    first = first_script(pre, failure)

    def load(t):
        try:
            return ("program", _snap.program(blackbird.loads(t)))
        except Exception as e:  # noqa
            return ("exception", type(e).__name__, str(e))

    def fresh():
        aux._VAR.clear()
        aux._PARAMS.clear()

    fresh()
    ref = load(text)
    fresh()
    f = load(first)
    second = load(text)
    fresh()
    if f[0] != "exception":
        return None
    same = (second[0] == ref[0]) and (second[1:] == ref[1:] if ref[0] == "exception" else not _snap.diff(second[1], ref[1]))
    if same:
        return None
    return {"text": text, "first": first, "values": vals, "pre": pre,
            "what": "outcome of a load depends on an earlier failed load",
            "observed": "after the failed load: %s" % _dd(second), "expected": "as in a pristine process: %s" % _dd(ref)}


def _dd(o):
    if o[0] == "exception":
        return "%s: %s" % (o[1], o[2][:160])
    s = o[1]
    return "program target=%r type=%r ops=%r" % (s["target"], s["type"], s["operations"])[:400]


REPLAY = '''#!/usr/bin/env python
# C12 replay: load script A (fails, leaves names behind), then script B; compare B's outcome with B loaded in a fresh state.
import sys; sys.path.insert(0, %(root)r)
from bbverif.checks import c12
sys.exit(c12.replay(%(spec)r, %(vals)r, %(pre)r))
'''


def replay(spec, vals, pre):
    if pre == "shared":
        sh, text = shared_state_vals(spec, vals)
        if not sh:
            print("no shared mutable state")
            return 0
        print("script (loaded twice):\n" + text)
        print("observed:", sh)
        return 1
    r = concrete_history(spec, vals, [tuple(p) for p in pre])
    if r is None:
        print("outcome is independent of the earlier load")
        return 0
    print("first script (fails):\n" + r["first"])
    print("second script:\n" + r["text"])
    print("observed:", r["observed"])
    print("expected:", r["expected"])
    return 1


# ----------------------------------------------------------------------------- twin loads: state nobody knows about
# Whatever process-wide state the code keeps (the two tables, or any table / memo added later), a load must not see what
# an earlier load left there.  Without naming the state: load a *twin* A of the script (the same skeleton with other
# symbolic values; optionally failing at its end; optionally with every concrete literal shifted by one), then the
# script B, in one process state - B's outcome must be what B gives alone, for all values of both.
FAIL_LINE = "Vac | name_that_is_not_defined_anywhere"
TWIN_MODES = ["same", "fails", "lit-1", "lit+1 fails", "fails otherwise"]


def literal_indices(text, lang, is_leaf):
    """indices (in the token sequence) of INT / FLOAT literals that are concrete in the skeleton"""
    return [i for i, (nm, tx, ln, col) in enumerate(lang.real_tokens_pos(text)) if nm in ("INT", "FLOAT") and not is_leaf(tx)]


def shift_literals(text, lang, idxs, delta):
    toks = lang.real_tokens_pos(text)
    lines = text.split("\n")
    for i in sorted(idxs, reverse=True):
        if i >= len(toks):
            continue
        nm, tx, ln, col = toks[i]
        if nm == "INT":
            n = int(tx)
            new = str(n + delta if n + delta >= 0 else n + 2)
        elif nm == "FLOAT":
            x = float(tx)
            new = repr(x + delta if x + delta >= 0 else x + 2.0)
        else:
            continue
        L = lines[ln - 1]
        lines[ln - 1] = L[:col] + new + L[col + len(tx):]
    return "\n".join(lines)


def twin_texts(spec, lv, mode, lang, idxs=None):
    """(A, B, pre-conditions, literal indices): B is the script under test, A its twin loaded before it"""
    gB = gen(spec, lv)
    gA = gen(spec, lv)
    A, B = gA["text"], gB["text"]
    if idxs is None:
        idxs = literal_indices(A, lang, (lambda tx: lv.reg.lookup(tx) is not None) if lv.symbolic else (lambda tx: False))
    if "lit" in mode:
        A = shift_literals(A, lang, idxs, -1 if "lit-1" in mode else 1)
    if "fails" in mode:
        # (the kind of exception that ends the first load may matter: an undefined name / a float used as a mode)
        A = A + (FAILURES[1] if "otherwise" in mode else FAIL_LINE) + "\n"
    return A, B, list(gA.get("pre", [])) + list(gB.get("pre", [])), idxs


def run_twin(arg):
    spec, mode = arg
    k0 = stubs.RangeBound.K
    stubs.RangeBound.K = 2      # two loads per path: trip counts <= 2 each
    try:
        return _run_twin(spec, mode)
    finally:
        stubs.RangeBound.K = k0


def _run_twin(spec, mode):
    w = _script.winit()
    bb = w["bb"]
    out = {"spec": ("twin", spec, mode), "result": "holds", "paths": 0, "stats": None, "why": None, "cex": None, "funcs": [], "reach": 0}
    lv = skel.Leaves()
    A, B, pre, idxs = twin_texts(spec, lv, mode, w["lang"])
    out["text"] = "--- first (%s) ---\n%s--- then ---\n%s" % (mode, A, B)
    nB = len(lv.vars) // 2

    def explore(with_twin):
        E = engine.Engine(max_paths=900)
        E.reset_hooks.append(lambda: install_tables(False))
        E.base = list(lv.cons) + pre

        def run():
            if with_twin:
                try:
                    bb.loads(A)
                except Exception:  # noqa  (engine aborts are BaseException)
                    pass
            return bb.loads(B)

        return E, E.explore(run)

    try:
        with U.coverage(out["funcs"]):
            E0, pristine = explore(False)
            E1, twin = explore(True)
    except engine.PathLimit as e:
        out.update(result="inconclusive", why=str(e))
        return out
    finally:
        install_tables(False)
    out["paths"] = len(twin) + len(pristine)
    out["stats"] = {k: E0.stats.get(k, 0) + E1.stats.get(k, 0) for k in E1.stats}
    for ph in twin:
        if ph.kind == "abort":
            out.update(result="inconclusive", why="abort: %s" % ph.value)
            continue
        oh = outcome(ph)
        for pp in pristine:
            if pp.kind == "abort":
                out.update(result="inconclusive", why="abort (alone): %s" % pp.value)
                continue
            r0, _ = E1.query(ph, z3.BoolVal(True), extra=pp.pc)
            if r0 == "unsat":
                continue
            if r0 != "sat":
                out.update(result="inconclusive", why="solver %s" % r0)
                continue
            out["reach"] += 1
            op = outcome(pp)
            if oh[0] != op[0]:
                diffs = [("outcome kind: %s after the twin, %s alone" % (_d(oh), _d(op)), True)]
            elif oh[0] == "exception":
                diffs = [] if oh[1:] == op[1:] else [("exception: %s after the twin, %s alone" % (_d(oh), _d(op)), True)]
            else:
                diffs = _snap.diff(oh[1], op[1])
            for where, cond in diffs:
                c = z3.BoolVal(True) if cond is True else cond
                r, mdl = E1.query(ph, c, extra=pp.pc)
                if r == "unsat":
                    continue
                if r != "sat":
                    out.update(result="inconclusive", why="solver %s" % r)
                    continue
                vals = lv.model_values(mdl)
                rr = concrete_twin(spec, mode, vals, idxs)
                if isinstance(rr, dict):
                    rr["symbolic_what"] = where
                    out.update(result="violation", cex=rr)
                    return out
                out.setdefault("unconfirmed", []).append({"what": where, "text": out["text"]})
    # native run of the same pair: done in batches by main() (fresh forked interpreter for each side, see forked_outcomes)
    out["native"] = (spec, mode, [(0.5 + i if k == "float" else 3 + i) for i, (_, k, _) in enumerate(lv.vars)], idxs)
    return out


def native_twins(results):
    """one native run per twin case (batched): state the proxies do not reach - object identities, hashes"""
    from ..atnsmt import lang as langmod
    lang = _script._W.get("lang") or langmod.Lang()
    todo = [r for r in results if r.get("native") and r["result"] == "holds"]
    jobs = []
    for r in todo:
        spec, mode, vals, idxs = r["native"]
        A, B, _, _ = twin_texts(spec, skel.Leaves(values=vals), mode, lang, idxs)
        jobs += [[A, B], [B]]
    n = 16
    chunks = [jobs[2 * k::2 * n] for k in range(n)]
    # keep pairs together: chunk k takes pairs k, k+n, ...
    chunks = [sum(([jobs[2 * i], jobs[2 * i + 1]] for i in range(k, len(todo), n)), []) for k in range(n)]
    outs = common.pmap(_fork_chunk, chunks)
    for k in range(n):
        for j, i in enumerate(range(k, len(todo), n)):
            r = todo[i]
            o = outs[k]
            if o is None or 2 * j + 1 >= len(o) or o[2 * j] is None or o[2 * j + 1] is None:
                continue
            r["validated"] = 1
            if o[2 * j][-1] != o[2 * j + 1][-1]:
                spec, mode, vals, idxs = r["native"]
                rr = concrete_twin(spec, mode, vals, idxs)      # once more, on its own
                if isinstance(rr, dict):
                    rr["symbolic_what"] = "native twin history differs although the symbolic twin run agrees (state the proxies do not reach: object identities, hashes)"
                    r.update(result="violation", cex=rr)
    for r in results:
        r.pop("native", None)


def _fork_chunk(jobs):
    try:
        return forked_outcomes(jobs) if jobs else []
    except Exception:  # noqa
        return None


FORK_WORKER = r"""
import sys, os, json
sys.path.insert(0, %(root)r)
import blackbird
from bbverif.checks import _snap
jobs = json.loads(sys.stdin.read())
res = []
for steps in jobs:
    r, wfd = os.pipe()
    pid = os.fork()
    if pid == 0:
        os.close(r)
        out = []
        for t in steps:
            try:
                out.append(["program", repr(_snap.program(blackbird.loads(t)))])
            except Exception as e:
                out.append(["exception", type(e).__name__, str(e)])
        os.write(wfd, json.dumps(out).encode())
        os._exit(0)
    os.close(wfd)
    buf = b""
    while True:
        c = os.read(r, 65536)
        if not c:
            break
        buf += c
    os.close(r)
    os.waitpid(pid, 0)
    res.append(json.loads(buf.decode() or "null"))
print("RESULT " + json.dumps(res))
"""


def forked_outcomes(jobs):
    """jobs: list of lists of script texts; each list is loaded in order in its own freshly forked interpreter (imports
    done, nothing loaded yet); returns the outcomes of every load of every list"""
    import json
    import subprocess
    src = FORK_WORKER % {"root": common.ROOT}
    p = subprocess.run([common.PY, "-W", "ignore", "-c", src], input=json.dumps(jobs), capture_output=True, text=True, timeout=600)
    for line in p.stdout.split("\n"):
        if line.startswith("RESULT "):
            return json.loads(line[7:])
    raise RuntimeError("fork worker failed: %s" % p.stderr[-400:])


def concrete_twin(spec, mode, vals, idxs):
    lv = skel.Leaves(values=vals)
    from ..atnsmt import lang as langmod
    lang = _script._W.get("lang") or langmod.Lang()
    A, B, _, _ = twin_texts(spec, lv, mode, lang, idxs)
    try:
        hist, alone = forked_outcomes([[A, B], [B]])
    except Exception as e:  # noqa
        return None
    if hist is None or alone is None or hist[-1] == alone[-1]:
        return None
    return {"text": "--- first (%s) ---\n%s--- then ---\n%s" % (mode, A, B), "values": vals, "pre": [mode, idxs],
            "what": "outcome of a load depends on an earlier load of a twin script",
            "observed": "after the twin: %s" % str(hist[-1])[:400], "expected": "alone in a fresh process: %s" % str(alone[-1])[:400]}


REPLAY_TWIN = """#!/usr/bin/env python
# C12 replay: load the twin script, then the script, in one fresh process; compare with the script loaded alone in a fresh process
import sys; sys.path.insert(0, %(root)r)
from bbverif.checks import c12
r = c12.concrete_twin(%(spec)r, %(mode)r, %(vals)r, %(idxs)r)
if r is None:
    print("outcome is independent of the earlier load"); sys.exit(0)
print(r["text"]); print("observed:", r["observed"]); print("expected:", r["expected"]); sys.exit(1)
"""


def twin_specs(tier, seed):
    from . import c05, c06, c08, c15
    specs = [("extra", i) for i in range(len(EXTRA))]
    c2 = c02.gen_specs("quick", seed)
    specs += [("c02", s) for s in c2[::(40 if tier == "quick" else 8)]]
    c5 = [s for s in c05.gen_specs("quick", seed) if s[0] == "redeclare" or (s[0] == "array" and s[5] == "idx" and s[3] == "none")]
    specs += [("c05", s) for s in c5[::(6 if tier == "quick" else 1)]]
    specs += [("c06", s) for s in c06.gen_specs("quick", seed) if s[3] in ("index", "args") and not s[4] and s[5] == "none"][::(4 if tier == "quick" else 1)]
    specs += [("c08", s) for s in [x for x in c08.gen_specs("quick", seed) if len(x) == 2 and isinstance(x[1], int)][::(6 if tier == "quick" else 1)]]
    specs += [("c15", s) for s in list(c15.SCRIPTS)[::(4 if tier == "quick" else 1)]]
    if tier == "quick":      # two of the four twin modes per script, rotating
        return [(s, m) for s in specs if s[0] == "extra" for m in TWIN_MODES] + [(s, TWIN_MODES[(i + j) % len(TWIN_MODES)]) for i, s in enumerate(specs) if s[0] != "extra" for j in (0, 1)]
    return [(s, m) for s in specs for m in TWIN_MODES]


# ----------------------------------------------------------------------------- concrete histories with includes
INC_OK = "name inc\nversion 1.0\n\nSgate(0.5) | 0\nBSgate | [0, 1]\n"
INC_UNDEF = "name inc\nversion 1.0\n\nSgate(0.5) | 0\nDgate(undefined_name) | 1\n"
INC_SYNTAX = "name inc\nversion 1.0\n\nSgate(0.5 | 0\n"
TINC = "name tinc\nversion 1.0\n\nDgate({alpha}) | 0\n"
MAIN = 'name main\nversion 1.0\ninclude "inc.xbb"\n\ninc | [3, 4]\nVac | 5\n'
MAIN2 = 'name other\nversion 1.0\ninclude "inc.xbb"\n\nXgate(0.25) | 1\ninc | [1, 2]\n'
TMAIN_BAD = 'name main\nversion 1.0\ninclude "tinc.xbb"\n\ntinc(beta=0.5) | 2\n'
TMAIN_OK = 'name main\nversion 1.0\ninclude "tinc.xbb"\n\ntinc(alpha=0.5) | 2\n'
LOOPFAIL = "name l\nversion 1.0\n\nfloat keepme = 0.5\nfor int i in [0, 1]\n    Dgate(nope) | i\n"
USESKEEP = "name u\nversion 1.0\ntarget X8 (shots=keepme)\n\nVac | 0\n"
INC_B2 = "name inc\nversion 1.0\n\nRgate(1.5) | 1\nVac | 0\n"
GATES_A = "name gates\nversion 1.0\n\nSgate(0.1) | 0\n"
GATES_B = "name gates\nversion 1.0\n\nSgate(0.7) | 0\nVac | 0\n"
LIB = 'name lib\nversion 1.0\ninclude "gates.xbb"\n\ngates | 1\nBSgate | [0, 1]\n'
LIB_B = 'name lib\nversion 1.0\ninclude "gates.xbb"\n\nBSgate | [1, 0]\ngates | 0\n'
TOP = 'name top\nversion 1.0\ninclude "lib.xbb"\n\nlib | [2, 3]\n'
# steps: ('write', relpath, text) | ('utime', relpath, seconds) | ('chdir', reldir) | ('load', relpath | 'rel:'+path relative to the cwd) | ('loads', text)
HISTORIES = {
    "include_fails_then_same_again": [("write", "inc.xbb", INC_UNDEF), ("write", "main.xbb", MAIN), ("load", "main.xbb"), ("load", "main.xbb")],
    "include_fails_then_repaired": [("write", "inc.xbb", INC_UNDEF), ("write", "main.xbb", MAIN), ("load", "main.xbb"), ("write", "inc.xbb", INC_OK), ("load", "main.xbb"), ("load", "main.xbb")],
    "include_syntax_error_then_other_script": [("write", "inc.xbb", INC_SYNTAX), ("write", "main.xbb", MAIN), ("write", "other.xbb", MAIN2), ("load", "main.xbb"),
                                               ("write", "inc.xbb", INC_OK), ("load", "other.xbb"), ("load", "main.xbb")],
    "include_ok_twice_and_other": [("write", "inc.xbb", INC_OK), ("write", "main.xbb", MAIN), ("write", "other.xbb", MAIN2), ("load", "main.xbb"), ("load", "other.xbb"), ("load", "main.xbb")],
    "template_include_bad_call_then_good": [("write", "tinc.xbb", TINC), ("write", "bad.xbb", TMAIN_BAD), ("write", "good.xbb", TMAIN_OK), ("load", "bad.xbb"), ("load", "good.xbb"), ("load", "bad.xbb"), ("load", "good.xbb")],
    "loop_body_failure_then_metadata_option": [("loads", LOOPFAIL), ("loads", USESKEEP), ("loads", LOOPFAIL), ("loads", USESKEEP)],
    "include_rewritten_between_loads": [("write", "inc.xbb", INC_OK), ("write", "main.xbb", MAIN), ("load", "main.xbb"),
                                        ("write", "inc.xbb", "name inc\nversion 1.0\n\nRgate(1.5) | 1\nVac | 0\n"), ("load", "main.xbb"), ("write", "other.xbb", MAIN2), ("load", "other.xbb")],
    "included_name_used_without_include": [("write", "inc.xbb", INC_OK), ("write", "main.xbb", MAIN), ("load", "main.xbb"),
                                           ("loads", "name plain\nversion 1.0\n\ninc | [1, 2]\ninc(0.5) | 3\n"), ("load", "main.xbb")],
    "division_by_zero_then_singular_functions": [("loads", "name z\nversion 1.0\n\nfloat x = 1.5\nDgate(x/0) | 0\n"), ("loads", "name s\nversion 1.0\n\nDgate(log(0), arctanh(1)) | 0\nRgate(0.0**-1) | 1\n"),
                                                 ("loads", "name z\nversion 1.0\n\nDgate(1/0.0, sqrt(-1)) | 0\n"), ("loads", "name s\nversion 1.0\n\nDgate(log(0)) | 0\n")],
    "failing_expression_kinds_then_valid": [("loads", "name a\nversion 1.0\n\nDgate(2**-1) | 0\n"), ("loads", "name b\nversion 1.0\n\nint n = 1+2j\n"), ("loads", "name c\nversion 1.0\n\nVac | 0.5\n"),
                                            ("loads", "name d\nversion 1.0\n\nfloat array A[3, 3] =\n    1, 2\n"), ("loads", "name e\nversion 1.0\n\nDgate(4/(1+1), 2**3, sqrt(16)) | 0\nfor int i in 0:2\n    Vac | i\n")],
    # files behind include chains change between loads; modification times preserved or going backwards; same relative path in another directory
    "nested_innermost_rewritten": [("write", "gates.xbb", GATES_A), ("write", "lib.xbb", LIB), ("write", "top.xbb", TOP), ("load", "top.xbb"), ("write", "gates.xbb", GATES_B), ("load", "top.xbb"),
                                   ("load", "lib.xbb"), ("write", "gates.xbb", GATES_A), ("load", "top.xbb")],
    "nested_middle_rewritten": [("write", "gates.xbb", GATES_A), ("write", "lib.xbb", LIB), ("write", "top.xbb", TOP), ("load", "top.xbb"), ("write", "lib.xbb", LIB_B), ("load", "top.xbb")],
    "include_rewritten_same_mtime": [("write", "inc.xbb", INC_OK), ("utime", "inc.xbb", 1000000000), ("write", "main.xbb", MAIN), ("utime", "main.xbb", 1000000000), ("load", "main.xbb"),
                                     ("write", "inc.xbb", INC_B2), ("utime", "inc.xbb", 1000000000), ("load", "main.xbb"),
                                     ("write", "main.xbb", MAIN2), ("utime", "main.xbb", 1000000000), ("load", "main.xbb")],
    "replaced_by_older_files": [("write", "inc.xbb", INC_OK), ("utime", "inc.xbb", 1500000000), ("write", "main.xbb", MAIN), ("utime", "main.xbb", 1500000000), ("load", "main.xbb"),
                                ("write", "inc.xbb", INC_B2), ("utime", "inc.xbb", 1200000000), ("load", "main.xbb"), ("write", "main.xbb", MAIN2), ("utime", "main.xbb", 1100000000), ("load", "main.xbb")],
    "same_relative_path_in_two_directories": [("write", "a/inc.xbb", INC_OK), ("write", "a/main.xbb", MAIN), ("write", "b/inc.xbb", INC_B2), ("utime", "b/inc.xbb", 1000000000),
                                              ("write", "b/main.xbb", MAIN2), ("utime", "b/main.xbb", 1000000000),
                                              ("chdir", "a"), ("load", "rel:main.xbb"), ("chdir", "b"), ("load", "rel:main.xbb"), ("chdir", "a"), ("load", "rel:main.xbb")],
    "plain_script_rewritten_same_mtime": [("write", "job.xbb", USESKEEP.replace("keepme", "5")), ("utime", "job.xbb", 1000000000), ("load", "job.xbb"),
                                          ("write", "job.xbb", "name other\nversion 1.0\n\nDgate(0.5) | 1\n"), ("utime", "job.xbb", 1000000000), ("load", "job.xbb")],
    # a failed parse followed by scripts whose very first token is the wrong one (the generated parser could repair that in place:
    # an error-recovery state that survives the failed parse would swallow the report)
    "syntax_errors_then_scripts_wrong_at_first_token": [
        ("loads", "name a\nversion 1.0\n\nVac | 0\n= Vac | 1\n"), ("loads", "prog\nversion 1.0\n\nVac | 0\n"), ("loads", "name a\nversion 1.0\n\n| 0\n"),
        ("loads", "= name prog\nversion 1.0\n\nVac | 0\n"), ("loads", LOOPFAIL), ("loads", "version 1.0\n\nVac | 0\n"), ("loads", "name ok\nversion 1.0\n\nVac | 0\n"),
        ("loads", "name a\nversion 1.0\n\nDgate(0.5 | 0\n"), ("loads", "Vac | 0\n"), ("loads", "name a\nversion 1.0\n\nfloat = 3\n"), ("loads", "1.0 name prog\nversion 1.0\n\nVac | 0\n")],
    "strings_then_files": [("loads", LOOPFAIL), ("write", "inc.xbb", INC_OK), ("write", "main.xbb", MAIN), ("load", "main.xbb"), ("loads", USESKEEP)],
}

HIST_WORKER = r'''
import sys, os, json
sys.path.insert(0, %(root)r)
import blackbird
from bbverif.checks import _snap
steps = json.loads(%(steps)r)
root = %(dir)r
os.chdir(root)
out = []
for st in steps:
    if st[0] == "write":
        os.makedirs(os.path.dirname(os.path.join(root, st[1])), exist_ok=True)
        with open(os.path.join(root, st[1]), "w") as fh:
            fh.write(st[2])
        continue
    if st[0] == "utime":
        os.utime(os.path.join(root, st[1]), (st[2], st[2]))
        continue
    if st[0] == "chdir":
        os.chdir(os.path.join(root, st[1]))
        continue
    try:
        if st[0] == "load":
            p = blackbird.load(st[1][4:] if st[1].startswith("rel:") else os.path.join(root, st[1]))
        else:
            p = blackbird.loads(st[1])
        out.append(["program", repr(_snap.program(p))])
    except Exception as e:
        out.append(["exception", type(e).__name__, str(e).replace(root, "<dir>")])
print("RESULT " + json.dumps(out))
'''


def run_history_steps(steps, pristine_each):
    """outcomes of the load steps: in one process (history) or each load step in its own fresh process after the same writes"""
    import json
    import shutil
    import subprocess
    import tempfile

    def run(sub):
        d = tempfile.mkdtemp(prefix="bbverif_c12_")
        try:
            src = HIST_WORKER % {"root": common.ROOT, "steps": json.dumps(sub), "dir": d}
            p = subprocess.run([common.PY, "-W", "ignore", "-c", src], capture_output=True, text=True, timeout=300)
            for line in p.stdout.split("\n"):
                if line.startswith("RESULT "):
                    return json.loads(line[7:])
            return [["harness", p.stderr[-300:]]]
        finally:
            shutil.rmtree(d, ignore_errors=True)

    if not pristine_each:
        return run(steps)
    res = []
    for k, st in enumerate(steps):
        if st[0] not in ("load", "loads"):
            continue
        # same files (and working directory) as at this point of the history, but only this one load in the process
        writes = [s for s in steps[:k] if s[0] not in ("load", "loads")]
        res.append(run(writes + [st])[-1])
    return res


def history_case(name):
    steps = HISTORIES[name]
    hist = run_history_steps(steps, False)
    prist = run_history_steps(steps, True)
    loads_ = [s for s in steps if s[0] in ("load", "loads")]
    for k, (a, b) in enumerate(zip(hist, prist)):
        if a != b:
            return {"text": "history %s: %r" % (name, [(s[0], s[1][:40]) for s in steps]), "values": [name], "pre": [],
                    "what": "load number %d of the history has a different outcome than in a pristine process" % (k + 1),
                    "observed": "in the history: %s" % str(a)[:300], "expected": "pristine: %s" % str(b)[:300]}
    return None


def run_history(name):
    out = {"spec": ("hist", name), "result": "holds", "paths": 1, "stats": None, "funcs": [], "reach": 1, "validated": len([s for s in HISTORIES[name] if s[0] in ("load", "loads")]),
           "text": "concrete history %s" % name, "name": "history " + name}
    r = history_case(name)
    if r:
        r["symbolic_what"] = r["what"]
        out.update(result="violation", cex=r)
    return out


REPLAY_HIST = '''#!/usr/bin/env python
# C12 replay of a concrete history: every load of the history vs the same load alone in a fresh process
import sys; sys.path.insert(0, %(root)r)
from bbverif.checks import c12
r = c12.history_case(%(name)r)
if r is None:
    print("every load has its pristine outcome"); sys.exit(0)
print(r["text"]); print(r["what"]); print(r["observed"]); print(r["expected"]); sys.exit(1)
'''


SETTINGS_WORKER = r"""
import sys, os, json, warnings, locale, decimal
sys.path.insert(0, %(root)r)
import numpy as np
import blackbird


def settings():
    return {"recursion limit": sys.getrecursionlimit(), "numpy error state": repr(sorted(np.geterr().items())), "numpy print options": repr(sorted(np.get_printoptions().items())),
            "warning filters": len(warnings.filters), "working directory": os.getcwd(), "sys.path": list(sys.path), "locale": repr(locale.getlocale()),
            "decimal context": repr(decimal.getcontext()), "float repr style": sys.float_repr_style, "int max str digits": sys.get_int_max_str_digits(),
            "environment size": len(os.environ), "switch interval": sys.getswitchinterval()}


scripts = json.loads(sys.stdin.read())
before = settings()
out = []
for name, text in scripts:
    try:
        blackbird.loads(text)
        res = "ok"
    except RecursionError:
        res = "RecursionError"
    except Exception as e:
        res = type(e).__name__
    now = settings()
    diff = {k: [before[k], now[k]] for k in before if before[k] != now[k]}
    if diff:
        out.append([name, res, diff])
        break
print("RESULT " + json.dumps(out))
"""


def settings_scripts():
    long_flat = "name long\nversion 1.0\n\n" + "".join("Dgate(%d.5, phi=sin(%d)) | %d\nBSgate(0.25, (1+%d)*2) | [%d, %d]\n" % (k, k, k % 7, k, k % 5, k % 5 + 1) for k in range(160))
    nested = "name deep\nversion 1.0\n\nDgate(" + "(" * 120 + "1" + ")" * 120 + ") | 0\n"
    many_vars = "name vars\nversion 1.0\n\n" + "".join("float x%d = %d/7\n" % (k, k) for k in range(120)) + "Dgate(x5, x119) | 0\n"
    failing = ["name f1\nversion 1.0\n\nDgate(1/0) | 0\n", "name f2\nversion 1.0\n\nDgate(log(0), sqrt(-1)) | 0\nVac | nope\n", "name f3\nversion 1.0\n\nint n = 1+2j\n",
               "name f4\nversion 1.0\n\nfor int i in 0:3\n    Dgate(1e308*10*i) | i\n", "name f5\nversion 1.0\n\nDgate(((((1) | 0\n"]
    return [("long flat script", long_flat), ("deeply bracketed expression", nested), ("many variables", many_vars)] + [("failing script %d" % i, t) for i, t in enumerate(failing)] + [
        ("long flat script again", long_flat + "Vac | nope\n")]


def settings_case():
    """a load leaves the interpreter-wide settings as it found them (recursion limit, NumPy error state and print options,
    warning filters, working directory, sys.path, locale, decimal context ...): otherwise what a later load can do depends on
    the earlier one.  One fresh process, a sequence of long / deep / failing scripts, settings compared after every load."""
    import json
    import subprocess
    src = SETTINGS_WORKER % {"root": common.ROOT}
    p = subprocess.run([common.PY, "-W", "ignore", "-c", src], input=json.dumps(settings_scripts()), capture_output=True, text=True, timeout=600)
    for line in p.stdout.split("\n"):
        if line.startswith("RESULT "):
            res = json.loads(line[7:])
            if not res:
                return None
            name, outcome, diff = res[0]
            return {"text": "interpreter-wide settings before / after loading: %s (outcome %s)" % (name, outcome), "values": ["settings"], "pre": [],
                    "what": "a load changes interpreter-wide settings: %s" % ", ".join(sorted(diff)),
                    "observed": "; ".join("%s: %s -> %s" % (k, str(a)[:80], str(b)[:80]) for k, (a, b) in sorted(diff.items())), "expected": "unchanged"}
    raise common.HarnessError("settings worker failed: %s" % p.stderr[-300:])


def run_settings(_):
    out = {"spec": ("settings", 0), "result": "holds", "paths": 1, "stats": None, "funcs": [], "reach": 1, "validated": len(settings_scripts()),
           "text": "interpreter-wide settings are unchanged by loads (long, deep and failing scripts)", "name": "interpreter-wide settings"}
    r = settings_case()
    if r:
        r["symbolic_what"] = r["what"]
        out.update(result="violation", cex=r)
    return out


REPLAY_SETTINGS = """#!/usr/bin/env python
import sys; sys.path.insert(0, %(root)r)
from bbverif.checks import c12
r = c12.settings_case()
if r is None:
    print("settings unchanged"); sys.exit(0)
print(r["text"]); print(r["what"]); print(r["observed"]); sys.exit(1)
"""


def static_state_scan(rep):
    """module-level mutable state of auxiliary/listener other than the two tables (AST scan, every run)"""
    found = []
    for m in ("auxiliary.py", "listener.py", "program.py", "error.py", "utils.py", "__init__.py"):
        src = open(os.path.join(common.REPO, "blackbird_python", "blackbird", m)).read()
        tree = ast.parse(src)
        for node in tree.body:
            if isinstance(node, (ast.Assign, ast.AnnAssign)):
                val = node.value
                tg = node.targets[0] if isinstance(node, ast.Assign) else node.target
                name = getattr(tg, "id", None)
                if val is None:
                    continue
                # a mutable literal / constructor anywhere inside the value (also inside a tuple or a call)
                if any(isinstance(n, (ast.Dict, ast.List, ast.Set, ast.ListComp, ast.DictComp, ast.SetComp)) or (
                        isinstance(n, ast.Call) and getattr(n.func, "id", getattr(n.func, "attr", "")) in ("dict", "list", "set", "defaultdict", "OrderedDict", "deque", "Counter"))
                       for n in ast.walk(val)):
                    found.append("%s:%s" % (m, name))
    known = {"auxiliary.py:_VAR", "auxiliary.py:_PARAMS", "listener.py:PYTHON_TYPES", "listener.py:NUMPY_TYPES", "auxiliary.py:_SYMPY_FUNCTIONS", "utils.py:Command"}
    extra = sorted(set(found) - known)
    rep.extra["module_level_mutables"] = sorted(found)
    rep.obligation("module-level mutable state = {_VAR, _PARAMS} + constant tables (AST scan)", "holds" if not extra else "inconclusive",
                   unexpected=extra)
    return extra


def main():
    t = common.tier()
    rep = common.Report(PID, "model_checking")
    rep.rule = ("one case = one script loaded once from an arbitrary table pre-state (havoc _VAR/_PARAMS) and once from empty tables; "
                "distinct = distinct skeletons; non-trivial = at least one table lookup before the tables are cleared or of an undefined name")
    rep.bounds = {"scripts": "C11 undefined/reserved/mode fault skeletons, metadata options mentioning names, p-type/tdm/template/loop scripts, sample of C02 skeletons",
                  "pre-state values": "int / float / str per name, symbolic", "history replay": "one failed load followed by the load under test"}
    rep.assumptions = [
        "reachable pre-states: any finite map name -> value in _VAR (declare, then fail); p-type names as strings in _PARAMS; symbols left in _PARAMS are not modelled",
        "a successful load leaves both tables empty (exitProgram clears them) - checked on the pristine runs",
        "no other module-level mutable state exists (AST scan on every run; a new one makes the check inconclusive)",
        "iteration over a havoc table yields only the entries materialised so far (under-approximation, relevant only before the first clear)",
        "state outside the two tables (e.g. a new module-level container) is not havoc'ed: it is covered by the twin loads (symbolic values of both loads; the first load is a twin of the second, "
        "so only leaks between scripts of one shape are in the claim), by the concrete file histories (each load vs the same load alone in a fresh process), and flagged by the AST scan",
        "twin loads: loop trip counts <= 2; native twin runs depend on the allocator / hash behaviour of this CPython build (a leak keyed by object identity shows only if addresses are reused)",
    ]
    static_state_scan(rep)
    specs = gen_specs(t, common.seed())
    tw = twin_specs(t, common.seed())
    tres = U.run_parallel(run_twin, tw)
    native_twins(tres)
    results = U.run_parallel(run_spec, specs) + U.run_parallel(run_history, list(HISTORIES)) + tres + [run_settings(0)]
    rep.bounds["twin loads"] = "%d (script, twin mode) pairs; modes %s" % (len(tw), TWIN_MODES)

    def replay_fn(r):
        if r["spec"][0] == "settings":
            return REPLAY_SETTINGS % {"root": common.ROOT}
        if r["spec"][0] == "hist":
            return REPLAY_HIST % {"root": common.ROOT, "name": r["spec"][1]}
        if r["spec"][0] == "twin":
            return REPLAY_TWIN % {"root": common.ROOT, "spec": r["spec"][1], "mode": r["spec"][2], "vals": r["cex"]["values"], "idxs": r["cex"]["pre"][1]}
        return REPLAY % {"root": common.ROOT, "spec": r["spec"], "vals": r["cex"]["values"], "pre": r["cex"]["pre"]}

    U.collect(rep, results, key_fn=lambda r: _script.default_key(r),
              replay_fn=replay_fn,
              sample_fn=lambda r: {"script": r["text"], "paths": r["paths"], "havoc_forks": r.get("havoc_forks")})
    rep.extra["havoc_forks"] = sum(r.get("havoc_forks", 0) for r in results)
    return rep.finish()


if __name__ == "__main__":
    sys.exit(main())
