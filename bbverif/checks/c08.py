"""C08 - measured-register arguments become transforms computing the written formula.

Register expressions (polynomial / rational, 1-3 distinct registers, concrete coefficients, declared variables) in
positional and keyword position are loaded by the real code; the measurement values are solver variables and the
iteration order of every symbol set met by the code is a symbolic permutation (`order` stub).  On every path:
sorted(regrefs) = registers written, each once; func(*[x[n] for n in regrefs]) == reference value for all x away from
poles; register-free arguments stay plain values.
"""
import sys

import z3

from .. import common
from . import _script, _util as U, c11

PID = "C08"
MOD = "bbverif.checks.c08"

EXPRS1 = ["-q1**2", "-(q5**2)", "2**-q0", "q0*2", "-q1", "q5/4+1", "q12**2", "2/q0", "(q0+1)*(q0-1)", "q0", "0.5*q1-q1*q1", "q12*q12*q12/8", "q5+q5"]
EXPRS2 = ["-q0**2+q1", "q1*-q0**2", "(q1+1)/-q5**2", "q0+q1", "q0*q1-3", "q1/q0", "q0-q1*0.5", "q12*q5+q5", "(q1+q0)*(q1-q0)", "q5**2/q1", "-q0-q12", "q1*2+q0*4-q1", "q0*q12/2"]
EXPRS3 = ["q0+2*q1-q5*0.25", "q0*q1*q5", "(q0+q1)/q5", "q12-q5+q1", "q1*q5+q0*q12", "q0/(q1*q5)"]
FUNCS = ["sin(q0)*2", "exp(q1)+q0", "sqrt(q5)/q0"]
# register numbers written with leading zeros, next to registers whose spelling sorts differently from their number
DIVISORS = ["q0/0.0000007", "q1/1.3e-6+q0", "q0/0.7071067811865475-q5", "q5*q0/0.0000123", "q0/3.5e7", "q1/0.1+q0/0.3"]
ZEROS = ["q01-q5", "q5/q001+1", "q012*q5-q1", "q00-q1*2", "q05**2-q12", "q1-q012", "q010-q5"]


def scripts(tier):
    S = []
    hdr = ["name c08", "version 1.0", "", "MeasureX | 0", "MeasureP | 1"]
    allx = EXPRS1 + EXPRS2 + EXPRS3 + FUNCS + ZEROS + DIVISORS
    for e in allx:
        S.append(hdr + ["Dgate(%s) | %%(m)s" % e])
        S.append(hdr + ["Dgate(%%(f)s, phi=%s) | %%(m)s" % e])
    for a, b in zip(EXPRS2, EXPRS3 + EXPRS1):
        S.append(hdr + ["Dgate(%s, %%(f)s*2, k=%s, j=%%(i)s) | %%(m)s" % (a, b)])
        S.append(hdr + ["Zgate(%s) | %%(m)s" % a, "Vac | %(m)s", "Xgate(%%(f)s, %s) | %%(m)s" % b])
    S.append(hdr + ["float c = 0.5", "int n = 3", "Dgate(c*q0+q1*n, c) | %(m)s", "Rgate(k=n*q5) | %(m)s"])
    S.append(hdr + ["Dgate(2*0.25, q0*0+1.5, 3) | %(m)s"])     # register cancels: excluded by the property -> see gen()
    S.append(hdr + ["for int i in [2, 3]", "    Dgate(q0*i) | i"])
    if tier == "thorough":
        for a in EXPRS3:
            for b in EXPRS3:
                S.append(hdr + ["Dgate(%s, k=%s) | %%(m)s" % (a, b)])
    return S


_S = {}


def _deepcopy(p):
    import copy
    return copy.deepcopy(p)


def gen(spec, lv):
    tier, i = spec[:2]
    post = spec[2] if len(spec) > 2 else None
    if isinstance(i, tuple):
        # systematic expression shapes over two registers (generator shared with C01: three leaves, two operators, brackets, signs)
        from . import c01
        return {"text": c01.symx_text(i), "pre": [], "order": True, "what": ("ops", "modes", "params")}
    if tier not in _S:
        _S[tier] = scripts(tier)
    modes = []
    sub = c11.Sub(lv, modes)
    lines = [l % sub if "%(" in l else l for l in _S[tier][i]]
    pre = [z3.Distinct(modes)] if lv.symbolic and len(modes) > 1 else []
    g = {"text": "\n".join(lines) + "\n", "pre": pre, "order": True, "what": ("ops", "modes", "params")}
    if any(d in g["text"] for d in DIVISORS):
        g["concrete_only"] = True       # non-dyadic float coefficients: compared natively with tolerance (see _script.run_spec)
    if post == "deepcopy":
        g["post"] = _deepcopy        # a copy of the program must carry transforms that still compute the written formula
    return g


def gen_specs(tier, seed):
    base = [(tier, i) for i in range(len(scripts(tier))) if "q0*0" not in " ".join(scripts(tier)[i])]
    multi = [s for s in base if len(set(__import__("re").findall(r"q\d+", " ".join(scripts(tier)[s[1]])))) >= 2]
    from . import c01
    sx = [x for x in c01.symx_specs() if x[0] == "regref" and x[1] not in (("a", "b", "a"), ("a", "3", "2"))]
    # (a register that cancels identically is excluded by the property; divisors / factors of 3 become non-dyadic float
    #  coefficients inside SymPy, which the real-number model would report as a difference of 1e-17)
    return base + [s + ("deepcopy",) for s in (multi if tier == "thorough" else multi[::2])] + [(tier, x) for x in (sx[(seed % 9)::9] if tier == "quick" else sx)]


def main():
    t = common.tier()
    from ..pysym import order
    rep = common.Report(PID, "model_checking")
    rep.rule = ("one case = one script with register expressions, run symbolically with symbolic measurement values and every symbol-set iteration "
                "order forked; distinct = distinct scripts")
    rep.bounds = {"registers per expression": "<=3, numbers from {0,1,5,12}", "coefficients": "concrete", "positions": "positional, keyword, both, loop body",
                  "also": "register numbers with leading zeros; a deep copy of the loaded program; the C01 expression-shape family over q0, q1 (quick: every 9th; thorough: all)"}
    rep.assumptions = [
        "one iteration order per distinct symbol-set content per path (a hash seed fixes one order per content)",
        "measurement values are symbolic reals; poles excluded by the reference's domain conditions; functions uninterpreted (dispatch only)",
        "expressions where a register cancels identically are excluded (by the property)",
    ]
    specs = gen_specs(t, common.seed())
    results = U.run_parallel(_script.run_spec, [(MOD, s) for s in specs])
    U.collect(rep, results, key_fn=_script.default_key, replay_fn=_script.replay_src(MOD),
              sample_fn=lambda r: {"script": r["text"], "paths": r["paths"], "order_sites": r.get("order_sites")})
    sites = {}
    for r in results:
        for k, v in (r.get("order_sites") or {}).items():
            sites[k] = sites.get(k, 0) + v
    rep.extra["set_iteration_sites_in_code_under_test"] = sites
    return rep.finish()


if __name__ == "__main__":
    sys.exit(main())
