"""C01 - serialise-then-parse round trip preserves every parsed program.

p = loads(skeleton) (symbolic run) ; t = dumps(p) (real serialize on proxies) ; p' = loads(t) (second symbolic run) ;
assert p' denotes the same program as p for all placeholder values (z3), and once more for generation 2
(t2 = dumps(p'), p'' = loads(t2)), which guards the induction step against kind drift.
Skeleton families: the C02/C05/C06 generators, templates with adversarial parameter names, measured-register
expressions, tdm programs.  Lexeme lemma shared with C09.
"""
import sys

import numpy as np
import z3

from .. import common
from ..pysym import engine, proxies as P, stubs, terms as T, skel
from . import _script, _util as U, _equiv, c02, c05, c06, c11

PID = "C01"
MOD = "bbverif.checks.c01"

OWN = [
    # templates: parameter names that overlap each other, function names and keywords
    ["name t1", "version 1.0", "", "Dgate({a}*{ab}+{b}, %(f)s) | %(m)s"],
    ["name t2", "version 1.0", "", "Dgate({r}, phi={phi}) | %(m)s", "Sgate(2*{r}+1, -{phi}/4) | %(m)s"],
    ["name t3", "version 1.0", "", "Rgate(sqrt({r})*{s}) | %(m)s", "Rgate(exp({x})+{e}) | %(m)s"],
    ["name t4", "version 1.0", "", "Dgate({alpha}, {alpha_1}*{a_lpha}) | %(m)s", "Sgate(k={alpha_1}**2) | %(m)s"],
    ["name t5", "version 1.0", "", "Dgate({i}*sin({n})) | %(m)s"],
    ["name t6", "version 1.0", "", "float x = {a}*2", "Dgate(x, %(f)s) | %(m)s"],
    ["name t7", "version 1.0", "", "Dgate({p1}, {p}) | %(m)s"],
    # measured registers
    ["name r1", "version 1.0", "", "MeasureX | 0", "Dgate(q0*2) | 1"],
    ["name r2", "version 1.0", "", "MeasureX | 0", "MeasureP | 1", "Dgate(q0+q1*2.5, k=q1/q0) | 2"],
    ["name r3", "version 1.0", "", "MeasureX | 12", "Zgate(q12**2-q1*q12+3) | %(m)s"],
    # expressions that a symbol with assumptions (real, positive) would let SymPy rewrite into functions Blackbird does not have
    ["name r5", "version 1.0", "", "MeasureX | 0", "MeasureX | 1", "Dgate(sqrt(q0**2), 0.5/sqrt(q1*q1)) | 2", "Rgate((q0**2)**0.5, k=sqrt(q0**2+q1**2)) | 3"],
    ["name t8", "version 1.0", "", "Dgate(sqrt({a}**2), exp(log({b}))) | %(m)s", "Rgate(({a}**2)**0.5, k=sqrt({a}*{a})*{b}) | %(m)s"],
    ["name r4", "version 1.0", "", "MeasureX | 0", "Zgate(sin(q0)*2, -q0) | %(m)s"],
    # arrays as arguments, loops computing modes, lists
    ["name a1", "version 1.0", "", "float array A =", "    %(f)s, %(f)s", "    %(f)s, %(f)s", "Interferometer(A) | [%(m)s, %(m)s]", "Gate(U=A, k=%(i)s) | %(m)s"],
    ["name a2", "version 1.0", "", "complex array C =", "    %(c)s, %(c)s", "Gate(C) | %(m)s", "int array B =", "    %(i)s, %(i)s, %(i)s", "Gate(B, B) | %(m)s"],
    ["name a3", "version 1.0", "", "float array A =", "    {a}, %(f)s", "    %(f)s, {b}", "Gate(A) | %(m)s"],
    ["name l1", "version 1.0", "", "for int i in 0:3", "    Dgate(%(f)s) | [i, i+1]"],
    ["name l2", "version 1.0", "", "int k = %(m)s", "Vac | [k, k+%(i)s+100]", "Gate(vals=[%(i)s, 2*%(i)s, %(f)s/2], names=[\"x\", \"y z\"], flags=[True, False]) | k"],
    ["name l3", "version 1.0", "target X8 (shots=%(i)s, vals=[%(i)s, %(f)s], label=\"abc\", on=True)", "type tdm2 (copies=%(i)s*2)", "", "Vac | %(m)s"],
    ["name v1", "version 1.0", "", "complex z = %(c)s", "float y = -%(f)s", "int n = -%(i)s", "Gate(z, y, n, k=z*2) | %(m)s", "str s = \"hello\"", "bool b = False", "Gate(s, b) | %(m)s"],
    # arrays of every element type with parameters among the elements, as arguments: numbers before the first parameter, after it, around it
    ["name a6", "version 1.0", "", "int array U =", "    %(i)s, %(i)s, {a}", "Gate(U) | %(m)s"],
    ["name a7", "version 1.0", "", "complex array U =", "    %(c)s, {a}", "    {b}, %(c)s", "Gate(U, k=U) | %(m)s"],
    ["name a8", "version 1.0", "", "complex array U =", "    %(c)s, %(c)s, {a}", "Gate(U) | %(m)s"],
    ["name a9", "version 1.0", "", "int array U =", "    {a}, %(i)s", "    %(i)s, {b}", "Gate(k=U) | %(m)s", "float array V =", "    %(f)s, {a}, %(f)s", "Gate(V, U) | %(m)s"],
    # several arrays in one program whose values may coincide while shape / element type differ
    ["name a4", "version 1.0", "", "float array A =", "    %(f)s, %(f)s", "    %(f)s, %(f)s", "float array B =", "    %(f)s, %(f)s, %(f)s, %(f)s", "Gate(A) | %(m)s", "Reweight(B, k=A) | %(m)s"],
    ["name a5", "version 1.0", "", "int array A =", "    %(i)s, %(i)s", "float array B =", "    %(f)s, %(f)s", "complex array C =", "    %(c)s, %(c)s", "Gate(A, B, C) | %(m)s", "Gate(C, A) | %(m)s"],
    # tdm programs declare their own variables and pass ordinary arrays by value under generated names A0, A1, ...
    ["name g1", "version 1.0", "type tdm (copies=%(i)s)", "", "float array A1 =", "    %(f)s, %(f)s", "float array A2 =", "    %(f)s, %(f)s", "Gate(A1) | %(m)s", "Gate(A2, k=A1) | %(m)s"],
    ["name g2", "version 1.0", "type tdm", "", "int array A0 =", "    %(i)s", "float array A3 =", "    %(f)s", "float array p0 =", "    %(f)s, %(f)s", "Gate(A3, p0) | %(m)s", "Gate(A0, A3, k=A0) | %(m)s"],
    ["name g3", "version 1.0", "type tdm", "", "float array A0 =", "    %(f)s, %(f)s", "float array B =", "    %(f)s, %(f)s", "Gate(k=B) | %(m)s", "Gate(B, k=A0) | %(m)s"],
    # negated powers whose base is a function call / bracket with a product or quotient inside
    ["name x7", "version 1.0", "", "MeasureX | 0", "MeasureX | 1", "Zgate(0-sin(q0*q1)**2, -1*sin(q0/2)**2) | %(m)s", "Rgate(-1*cos({a}*{b})**2, 0-({a}*{b}+1)**2, k=-(exp({a}/{b})**2)*{b}) | %(m)s"],
    # expressions whose SymPy printing needs care (unary minus vs power, inverse functions, reciprocal)
    ["name x1", "version 1.0", "", "Rgate(-({a}**2), ({a}+1)**2) | %(m)s"],
    ["name x2", "version 1.0", "", "Rgate(arcsin({a})+arctanh({b}), k=arccos({a})) | %(m)s"],
    ["name x3", "version 1.0", "", "MeasureX | 0", "Zgate(-(q0**2), 1/q0) | %(m)s", "Zgate(arctan(q0)) | %(m)s"],
    ["name x4", "version 1.0", "", "Rgate(1/{a}, -1/({a}*{b}), ({a}-{b})/({a}+{b})) | %(m)s"],
    ["name x6", "version 1.0", "", "Rgate(-({a}**2)-{b}**2*3, (-({a}**3)+1)*{b}, -(({a}+{b})**2)) | %(m)s", "MeasureX | 0", "Zgate(-(q0**2)-q1**2) | %(m)s"],
    ["name x7", "version 1.0", "", "Rgate(-(sin({a})**2), -(({a}+1)**2), -((2*({a}+{b}))**2)) | %(m)s", "MeasureX | 0", "Zgate(-(cos(q0)**2), -(exp(q0)**3)) | %(m)s"],
    ["name x8", "version 1.0", "", "Rgate(-((0.00025*{a})**2), -({a}**0.5), -(sqrt({a})**3)) | %(m)s"],
    ["name w1", "version 1.0", "", "float array A[1, 1] =", "    {a}", "Foo(A) | %(m)s"],
    ["name w2", "version 1.0", "", "float array A[2, 2] =", "    {w}", "Foo(A, k=A) | %(m)s"],
    ["name b1", "version 1.0", "target sim (flags=[True, %(i)s, False])", "", "Gate(mask=[True, False, %(i)s], other=[False]) | %(m)s"],
    ["name x5", "version 1.0", "", "Rgate({a}**-1, {a}**0.5, 2**{a}) | %(m)s"],
    # tdm
    ["name d1", "version 1.0", "type tdm (temporal_modes=%(i)s, copies=%(i)s)", "", "int array p0 =", "    %(i)s, %(i)s, %(i)s", "float array p1 =", "    %(f)s, %(f)s, %(f)s",
     "BSgate(p0, %(f)s) | [%(m)s, %(m)s]", "Rgate(p1) | %(m)s", "MeasureHomodyne(phi=p0) | %(m)s"],
    ["name d2", "version 1.0", "type tdm (temporal_modes=2)", "", "float array p12 =", "    %(f)s, %(f)s", "Rgate(p12) | %(m)s", "Dgate({r}, p12) | %(m)s"],
    # parameter names that also occur inside printed numbers / function names, next to coefficients SymPy prints in exponent form
    ["name n1", "version 1.0", "", "Dgate(0.00001*{e}, 0.5) | %(m)s", "Sgate(2.5e+20*{E}-{j}, k=1e-7*{I}) | %(m)s"],
    ["name n2", "version 1.0", "", "Rgate(1E-9*{e}*{e1}+{e_}, {x}*1e300) | %(m)s", "Dgate(sqrt({s})*{q}, k=exp({expo})-{sinus}*3e-12) | %(m)s"],
    ["name n3", "version 1.0", "", "MeasureX | 0", "Dgate(0.00001*q0, 4.5e17*q0+1) | 1", "Rgate({e}/1e5) | %(m)s"],
    # other spellings / other types with p-named arrays: whatever the loader does with them must survive the round trip
    ["name d3", "version 1.0", "type TDM (temporal_modes=2)", "", "float array p0 =", "    %(f)s, %(f)s", "int array p1 =", "    %(i)s, %(i)s", "Rgate(p0) | %(m)s", "Dgate(%(f)s, phi=p1) | %(m)s"],
    ["name d4", "version 1.0", "type Tdm (copies=%(i)s)", "", "float array p3 =", "    %(f)s, %(f)s", "Rgate(p3, k=p3) | %(m)s"],
    ["name d5", "version 1.0", "type tdm_v2", "", "float array p0 =", "    %(f)s, %(f)s", "Rgate(p0) | %(m)s"],
    ["name d6", "version 1.0", "type sampling (tdm=True)", "", "complex array p0 =", "    %(f)s+%(f)sj, %(f)sj", "Rgate(p0) | %(m)s", "Gate(k=p0) | %(m)s"],
    ["name d7", "version 1.0", "target TDM (shots=%(i)s)", "", "float array p0 =", "    %(f)s, %(f)s", "Rgate(p0) | %(m)s"],
    ["name tdm", "version 1.0", "target tdm", "", "float array p0 =", "    %(f)s, %(f)s", "Rgate(p0) | %(m)s"],
]


# symbolic expressions over the grammar's operators: three leaves, two operators, brackets none/left/right, unary minus on
# each leaf and before the bracketed group; leaves are parameters / registers and concrete coefficients; an exponent is a
# literal.  Each must come back as a mathematically equal expression (the printer has to re-create brackets and signs).
SYMX_LEAVES = [("a", "b", "2"), ("a", "2", "b"), ("2", "a", "b"), ("a", "b", "a"), ("a", "h", "b"), ("a", "b", "c"), ("a", "3", "2")]
SYMX_OPS = ["+", "-", "*", "/", "**"]


def symx_specs():
    out = []
    for kind in ("param", "regref"):
        for L in SYMX_LEAVES:
            for o1 in SYMX_OPS:
                for o2 in SYMX_OPS:
                    for br in ("none", "left", "right"):
                        if o1 == "**" and (L[1] not in "23h" or br == "right"):
                            continue
                        if o2 == "**" and L[2] not in "23h":
                            continue
                        if not any(x in "abc" for x in L):
                            continue
                        for um in range(16):
                            if (um & 8) and br == "none":
                                continue
                            if (o1 == "**" and L[0] in "23" and um & 2) or (o2 == "**" and L[1] in "23" and um & 4 and br != "left"):
                                continue        # an integer literal to a negative integer power is refused by the loader (C03's domain)
                            if kind == "regref" and "c" in L:
                                continue
                            out.append((kind, L, (o1, o2), br, um))
    return out


def symx_text(spec):
    kind, L, (o1, o2), br, um = spec
    names = {"a": "{a}", "b": "{b}", "c": "{c}"} if kind == "param" else {"a": "q0", "b": "q1"}
    names.update({"2": "2", "3": "3", "h": "0.5"})
    x, y, z = [("-" if (um >> i) & 1 else "") + names[l] for i, l in enumerate(L)]
    g = "-" if um & 8 else ""
    if br == "left":
        e = "%s(%s %s %s) %s %s" % (g, x, o1, y, o2, z)
    elif br == "right":
        e = "%s %s %s(%s %s %s)" % (x, o1, g, y, o2, z)
    else:
        e = "%s %s %s %s %s" % (x, o1, y, o2, z)
    hdr = ["name sx", "version 1.0", ""] + (["MeasureX | 0", "MeasureP | 1"] if kind == "regref" else [])
    return "\n".join(hdr + ["Rgate(%s) | 2" % e, "Dgate(0.25, k=%s) | 3" % e]) + "\n"


def gen(spec, lv):
    fam = spec[0]
    if fam == "symx":
        return {"text": symx_text(spec[1]), "pre": []}
    if fam == "c02":
        return c02.gen(spec[1], lv)
    if fam == "c05":
        return c05.gen(spec[1], lv)
    if fam == "c06":
        return c06.gen(spec[1], lv)
    if fam == "c15":
        from . import c15
        return c15.gen(spec[1], lv)
    modes = []
    sub = c11.Sub(lv, modes)
    lines = [l % sub if "%(" in l else l for l in OWN[spec[1]]]
    pre = [z3.Distinct(modes)] if lv.symbolic and len(modes) > 1 else []
    return {"text": "\n".join(lines) + "\n", "pre": pre}


def gen_specs(tier, seed):
    specs = [("own", i) for i in range(len(OWN))]
    s2 = c02.gen_specs("sample-only", seed)
    # (quick: every metadata x statement combination and every 12th sampled sequence, rotating with the seed - the whole list is the
    # thorough tier's; the quick tier has to stay well below a quarter of an hour on 16 cores)
    nb = len(c02.META) * len(c02.STMTS)
    # (sequences that contain the two path-heavy statement variants more than once in total are left to C02, which loads them once;
    # here every path is loaded three times and serialised three times - one such sequence alone ran for more than a quarter of an hour)
    heavy = lambda sp: sum(sp[1].count(v) for v in ("int_divisors", "loop_index_func_kwlist")) > 1  # noqa
    s2 = s2[:nb] + [sp for sp in s2[nb:] if not heavy(sp)]
    if tier == "quick":
        specs += [("c02", s) for s in (s2[:nb] + s2[nb:][(seed % 12)::12])]
    else:
        specs += [("c02", s) for s in s2]
    specs += [("c02", (mk, ())) for mk in c02.META]        # metadata only
    # tdm programs re-declare their variables when serialised: every pair of statement variants (quick: the declaring ones)
    specs += [("c02", s) for s in c02.tdm_pair_specs(varlike_only=(tier == "quick"))]
    # arrays: equal rows only; parameters only where the array is used as an argument (a parameter that occurs only in an
    # unused variable is not part of the serialised program: outside the claim)
    s5 = [s for s in c05.gen_specs("quick", seed) if s[0] == "scalar" or (s[0] == "array" and len(set(s[2])) == 1 and s[3] in ("none", "exact") and (not s[4] or s[5] == "arg"))]
    specs += [("c05", s) for s in s5[::(3 if tier == "quick" else 1)]]
    s6 = [s for s in c06.gen_specs("quick", seed) if s[5] != "use" and s[3] != "func"]
    specs += [("c06", s) for s in s6[::(6 if tier == "quick" else 1)]]
    sx = symx_specs()
    specs += [("symx", s) for s in (sx[(seed % 10)::10] if tier == "quick" else sx)]
    return specs


def run_spec(spec):
    w = _script.winit()
    bb = w["bb"]
    out = {"spec": spec, "result": "holds", "paths": 0, "stats": None, "why": None, "cex": None, "funcs": [], "reach": 0}
    lv = skel.Leaves()
    g = gen(spec, lv)
    text = g["text"]
    out["text"] = text
    E = engine.Engine(max_paths=4000)
    E.reset_hooks.append(stubs.reset_tables)
    E.base = list(lv.cons) + list(g.get("pre", []))
    # stay inside the domain 'valid scripts whose values are finite': reference-side domain conditions (divisors != 0, ...)
    try:
        from ..ref import expr as RX
        if spec[0] == "c06":
            from ..ref import interp as RI
            RI.Interp.K = 3
        cases = _script.ref_cases(w, text, lv, True)
        doms = [z3.And([z3.BoolVal(True)] + list(rc) + list(it.dom.conds)) for (rc, ro, it) in cases if ro[0] == "ok"]
        if not doms:
            out.update(result="skipped", why="not a valid script (reference rejects it)")
            return out
        E.base.append(z3.simplify(z3.Or(doms)))
    except RX.RefError as e:
        out.update(result="inconclusive", why="reference: %s" % e)
        return out
    if spec[0] == "c06":
        stubs.RangeBound.K = 3

    def run():
        try:
            p = bb.loads(text)
        except engine.Abort:
            raise
        except Exception:  # noqa: scripts that do not load are not C01's subject (C02/C06/C11)
            return None
        bb.dumps(p)
        t1 = bb.dumps(p)        # (the text of a *second* serialisation of the same object: it must be as good as the first)
        p1 = bb.loads(t1)
        t2 = bb.dumps(p1)
        p2 = bb.loads(t2)
        return (p, t1, p1, t2, p2)

    with U.coverage(out["funcs"]):
        try:
            paths = E.explore(run)
        except engine.PathLimit as e:
            out.update(result="inconclusive", why=str(e), stats=E.stats)
            return out
    out["paths"] = len(paths)
    conc = lambda vals: concrete_check(spec, vals, w)  # noqa
    for pth in paths:
        if pth.kind == "abort":
            out.update(result="inconclusive", why="abort: %s" % pth.value)
            continue
        if pth.kind == "ok" and pth.value is None:
            continue
        out["reach"] += 1
        cands = []
        if pth.kind == "exc":
            cands.append(("round trip raises %s: %s" % (type(pth.value).__name__, str(pth.value)[:160]), z3.BoolVal(True)))
        else:
            p, t1, p1, t2, p2 = pth.value
            tdmvars = list(p.variables) if p.programtype["name"] == "tdm" else False
            for (a, b, gen_no) in ((p, p1, 1), (p1, p2, 2)):
                eq = _equiv.Eq(True)
                try:
                    eq.program(a, b, variables=[k for k in (tdmvars or []) if k in a.variables])
                except engine.Abort as e:
                    out.update(result="inconclusive", why="abort in comparison: %s" % e)
                    continue
                for desc, cond in eq.out:
                    cands.append(("generation %d: %s" % (gen_no, desc), z3.BoolVal(True) if cond is True else E.specialize(pth, cond)))
        for desc, cond in cands:
            res, cex = U.find_replayable(E, pth, cond, lv, conc)
            if res == "unsat":
                continue
            if res == "unknown":
                out.update(result="inconclusive", why="solver unknown: " + desc)
                continue
            if res == "unconfirmed":
                out.setdefault("unconfirmed", []).append({"what": desc, "text": text})
                continue
            cex["symbolic_what"] = desc
            out.update(result="violation", cex=cex, stats=E.stats)
            return out
    out["stats"] = E.stats
    if out["reach"] == 0 and out["result"] == "holds":
        out.update(result="skipped", why="the skeleton does not load")
    if out["result"] in ("holds", "inconclusive"):
        U.validate_native(E, paths, lv, conc, out, nmax=1)
    return out


def concrete_check(spec, vals, w=None):
    import blackbird
    import blackbird.auxiliary as aux
    lv = skel.Leaves(values=vals)
    text = gen(spec, lv)["text"]
    base = {"values": vals, "text": text}

    def clean():
        aux._VAR.clear()
        aux._PARAMS.clear()

    clean()
    try:
        T.PyAlg.overflow = False
        T.PyAlg.fscale = 0.0
        rc = _script.ref_cases(w or _script.plain_env(), text, lv, False)
        if rc[0][1][0] != "ok" or not rc[0][2].dom.ok or T.PyAlg.overflow:
            return "skip"
    except Exception:  # noqa
        return "skip"
    try:
        with np.errstate(all="ignore"):
            p = blackbird.loads(text)
    except Exception:  # noqa
        clean()
        return "skip"
    cur = p
    for gen_no in (1, 2):
        try:
            blackbird.dumps(cur)
            t = blackbird.dumps(cur)
        except Exception as e:  # noqa
            return dict(base, what="generation %d: dumps raises %s" % (gen_no, type(e).__name__), observed="%s: %s" % (type(e).__name__, str(e)[:200]), expected="a script")
        try:
            with np.errstate(all="ignore"):
                nxt = blackbird.loads(t)
        except Exception as e:  # noqa
            clean()
            return dict(base, what="generation %d: the serialised text is rejected: %s" % (gen_no, type(e).__name__),
                        observed="%s: %s\n--- serialised text ---\n%s" % (type(e).__name__, str(e)[:200], t), expected="re-loads")
        eq = _equiv.Eq(False)
        eq.program(cur, nxt, variables=list(cur.variables) if cur.programtype["name"] == "tdm" else False)
        if eq.out:
            return dict(base, what="generation %d: %s" % (gen_no, eq.out[0][0]), observed="; ".join(d for d, _ in eq.out[:4]) + "\n--- serialised text ---\n" + t,
                        expected="the same program")
        cur = nxt
    return None


def finding_key(r):
    w = _script.default_key(r)
    if "is of unsupported type object" in w and "ValueError" in w:
        return "serialize: array argument/variable that contains template parameters -> ValueError 'unsupported type object'"
    return w


REPLAY = '''#!/usr/bin/env python
# C01 replay: loads the script, dumps, re-loads (two generations) with the real blackbird and compares the programs.
import sys; sys.path.insert(0, %(root)r)
from bbverif.checks import c01
r = c01.concrete_check(%(spec)r, %(vals)r)
if r in (None, "skip"):
    print("round trip ok"); sys.exit(0)
print(r["text"]); print("what    :", r["what"]); print("observed:", r["observed"]); print("expected:", r["expected"]); sys.exit(1)
'''


def main():
    t = common.tier()
    rep = common.Report(PID, "model_checking")
    rep.rule = ("one case = one valid skeleton script loaded, serialised and re-loaded twice symbolically (all literal values solver variables); "
                "families: own templates/regrefs/arrays/tdm, C02 statement sequences, C05 declarations, C06 loops")
    rep.bounds = {"generations": 2, "skeletons": "as in C02/C05/C06 quick generators (sampled) + %d own scripts" % len(OWN),
                  "symbolic expression shapes": "3 leaves x 2 operators x brackets none/left/right x signs: %d shapes (quick: every 5th, by seed; thorough: all)" % len(symx_specs())}
    rep.assumptions = [
        "generation n >= 3 by induction: generation 2 is asserted to stay in the same value kinds (kind drift would show as a kind mismatch)",
        "symbolic arguments are compared by evaluating both expressions on fresh symbolic parameter / register values",
        "floats are reals; printed coefficients of SymPy expressions are concrete and compared to 1e-9 in replays ('up to float printing precision')",
        "hash seed fixed by bin/check (PYTHONHASHSEED=0); order dependence is C19's subject",
    ]
    specs = gen_specs(t, common.seed())
    results = U.run_parallel(run_spec, specs)
    U.collect(rep, results, key_fn=finding_key,
              replay_fn=lambda r: REPLAY % {"root": common.ROOT, "spec": r["spec"], "vals": r["cex"]["values"]},
              sample_fn=lambda r: {"script": r["text"], "paths": r["paths"]})
    try:
        from . import _lexemes
        _lexemes.lemma(rep, 20 if t == "quick" else 26)
    except Exception as e:  # noqa
        rep.obligation("O2 lexeme lemma", "inconclusive", why=repr(e))
    return rep.finish()


if __name__ == "__main__":
    sys.exit(main())
