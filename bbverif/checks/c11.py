"""C11 - ill-formed but grammatical programs are refused, never silently accepted.

Valid base statements with exactly one fault injected at every statement position and in every syntactic slot.
Fault values (float/complex modes, complex initialisers, loop values) are solver variables, so 'a program is
returned' is decided for every value (e.g. integral floats, complex numbers with zero imaginary part).
"""
import itertools
import random
import sys

import z3

from .. import common
from . import _script, _util as U, _gwin

PID = "C11"
MOD = "bbverif.checks.c11"

VALID = ["Vac | %(m)s", "Dgate(%(f)s, phi=%(f2)s) | %(m)s", "float okv = %(f)s", "BSgate(%(f)s) | [%(m)s, %(m2)s]"]

FAULTS = [
    # (class, slot, lines)  -- $U undefined identifier, symbolic leaves via %(..)s
    ("undefined", "positional", ["Dgate(undefd, %(f)s) | %(m)s"]),
    ("undefined", "positional-expr", ["Dgate(2*undefd+%(f)s) | %(m)s"]),
    ("undefined", "keyword", ["Dgate(%(f)s, phi=undefd) | %(m)s"]),
    ("undefined", "keyword-list", ["Gate(vals=[%(i)s, undefd, %(f)s]) | %(m)s"]),
    ("undefined", "mode", ["Vac | undefd"]),
    ("undefined", "mode-list", ["BSgate | [%(m)s, undefd]"]),
    ("undefined", "array-index", ["float array AA =", "    %(f)s, %(f2)s", "Dgate(AA[undefd]) | %(m)s"]),
    ("undefined", "array-name", ["Dgate(undefd[0]) | %(m)s"]),
    ("undefined", "array-name-in-expr", ["Dgate(%(f)s*undefd[1]+%(i)s) | %(m)s"]),
    ("undefined", "loop-list", ["for int j in [%(i)s, undefd]", "    Vac | j"]),
    ("undefined", "loop-body", ["for int j in [%(m)s, %(m2)s]", "    Dgate(undefd) | j"]),
    ("undefined", "scalar-init", ["float sv = undefd*%(f)s"]),
    ("undefined", "array-init", ["float array AB =", "    %(f)s, undefd"]),
    ("undefined", "function-arg", ["Dgate(sin(undefd)) | %(m)s"]),
    ("undefined", "after-loop", ["for int j in [%(m)s]", "    Vac | j", "Dgate(j) | %(m2)s"]),
    ("reserved", "scalar-regref", ["int q0 = %(i)s"]),
    ("reserved", "scalar-regref12", ["float q12 = %(f)s"]),
    ("reserved", "scalar-name", ["float name = %(f)s"]),
    ("reserved", "scalar-version", ["int version = %(i)s"]),
    ("reserved", "scalar-target", ["complex target = %(c)s"]),
    ("reserved", "scalar-type", ['str type = "x"']),
    ("reserved", "array-regref", ["float array q7 =", "    %(f)s, %(f2)s"]),
    ("reserved", "array-name", ["int array name =", "    %(i)s"]),
    ("reserved", "array-type", ["complex array type[1, 1] =", "    %(c)s"]),
    ("mode", "float", ["Vac | %(f)s"]),
    ("mode", "float-in-list", ["BSgate | [%(m)s, %(f)s]"]),
    ("mode", "float-var", ["float fm = %(f)s", "Vac | fm"]),
    ("mode", "float-computed", ["Vac | %(i)s*%(f)s"]),
    ("mode", "int-division", ["Vac | %(i)s/%(i2)s"]),
    ("mode", "complex", ["Vac | %(c)s"]),
    ("mode", "complex-computed", ["Vac | %(i)s + %(c)s"]),
    ("mode", "string-var", ['str sm = "a"', "Vac | sm"]),
    ("mode", "pi", ["Vac | pi"]),
    ("type", "int<-complex", ["int ci = %(c)s"]),
    ("type", "float<-complex", ["float cf = %(c)s"]),
    ("type", "float<-computed-complex", ["float cf = %(f)s * %(c)s + %(i)s"]),
    ("type", "int<-complex-var", ["complex cz = %(c)s", "int ci = cz"]),
    ("type", "float-array<-complex", ["float array CA =", "    %(f)s, %(c)s"]),
    ("type", "int-array<-complex", ["int array CA =", "    %(c)s"]),
    ("type", "int-array<-computed-complex", ["int array CA =", "    %(i)s, %(i2)s * %(c)s"]),
    # computed complex values whose imaginary part is zero or a rounding residue are complex values all the same
    ("type", "float<-function-of-complex", ["float cf = exp(1j*pi)"]),
    ("type", "int<-function-of-complex", ["int ci = cosh(1j*pi)"]),
    ("type", "float<-sqrt-of-complex", ["float cf = sqrt(4+0j)"]),
    ("type", "float<-function-of-symbolic-complex", ["float cf = exp(%(c)s)"]),
    ("type", "float<-expr-on-function-of-complex", ["float cf = %(f)s + 2*exp(1j*pi)"]),
    ("type", "float<-product-of-conjugates", ["float cf = (1+2j)*(1-2j)"]),
    ("type", "float<-complex-minus-itself", ["float cf = (%(f)s+1j) - 1j"]),
    ("type", "float<-complex-zero-imag-literal", ["float cf = %(f)s+0j"]),
    ("type", "int<-complex-power", ["int ci = (1j)**2"]),
    ("type", "float-array<-function-of-complex", ["float array CA =", "    %(f)s, exp(1j*pi)"]),
    ("type", "int-array<-function-of-complex", ["int array CA[1, 2] =", "    %(i)s, cos(0j)"]),
    ("mode", "function-of-complex", ["Vac | cosh(0j)"]),
    ("mode", "complex-zero-imag", ["Vac | %(i)s+0j"]),
    ("loopvalue", "function-of-complex-in-float", ["for float j in [exp(1j*pi)]", "    Dgate(j) | %(m)s"]),
    # a complex array used as a whole is a complex value, too
    ("type", "float<-whole-complex-array", ["complex array CZ =", "    %(c)s, %(i)s", "float cf = CZ"]),
    ("type", "int<-whole-complex-array", ["complex array CZ =", "    %(c)s", "int ci = CZ"]),
    ("loopvalue", "float-in-int", ["for int j in [%(i)s, %(f)s]", "    Vac | j"]),
    ("loopvalue", "str-in-int", ['for int j in [%(i)s, "a"]', "    Vac | j"]),
    ("loopvalue", "str-in-float", ['for float j in ["a"]', "    Dgate(j) | %(m)s"]),
    ("loopvalue", "int-in-str", ["for str j in [%(i)s]", "    Gate(j) | %(m)s"]),
    ("loopvalue", "complex-in-float", ["for float j in [%(c)s]", "    Dgate(j) | %(m)s"]),
    ("undefined", "metadata-option", None),
    ("undefined", "metadata-type-option", None),
]


class Sub(dict):
    def __init__(self, lv, modes):
        self.lv = lv
        self.modes = modes

    def __getitem__(self, k):
        lv = self.lv
        if k[0] == "m":
            t = lv.int()
            if lv.symbolic:
                self.modes.append(lv.vars[-1][2])
            return t
        if k[0] == "i":
            return lv.int()
        if k[0] == "f":
            return lv.float()
        if k[0] == "c":
            return lv.complex("a+bj")
        raise KeyError(k)


def gen(spec, lv):
    if spec[0] == "G":
        return _gwin.gen(spec, lv)
    fi, pos, valid = spec
    cls, slot, lines = FAULTS[fi]
    modes = []
    sub = Sub(lv, modes)
    L = ["name c11", "version 1.0"]
    if slot == "metadata-option":
        L.append("target X8 (shots=undefd)")
    elif slot == "metadata-type-option":
        L.append("target X8")
        L.append("type tdm (copies=[%s, undefd])" % lv.int())
    L.append("")
    body = [VALID[v] % sub for v in valid]
    fl = [l % sub for l in (lines or [])]
    body[pos:pos] = fl
    L += body
    pre = []
    if lv.symbolic and len(modes) > 1:
        pre.append(z3.Distinct(modes))
    return {"text": "\n".join(L) + "\n", "pre": pre, "what": ("meta", "ops", "modes", "vars", "params")}


def gen_specs(tier, seed):
    specs = []
    rnd = random.Random(seed)
    nvalid = len(VALID)
    for fi in range(len(FAULTS)):
        specs.append((fi, 0, ()))
        for v in range(nvalid):
            specs.append((fi, 0, (v,)))
            specs.append((fi, 1, (v,)))
        combos = list(itertools.product(range(nvalid), repeat=2))
        if tier == "quick":
            rnd.shuffle(combos)
            combos = combos[:4]
        for vs in combos:
            for pos in range(3):
                specs.append((fi, pos, vs))
        if tier == "thorough":
            for vs in itertools.product(range(nvalid), repeat=3):
                for pos in range(4):
                    specs.append((fi, pos, vs))
    return specs


def main():
    t = common.tier()
    rep = common.Report(PID, "model_checking")
    rep.rule = ("one case = one faulty skeleton (fault class/slot x position among 0-3 valid statements) run symbolically; "
                "fault values symbolic; the assertion is 'every path ends in the demanded exception'")
    rep.bounds = {"fault slots": len(FAULTS), "valid statements around the fault": "<=2 (quick) / <=3 (thorough)", "fault position": "every position"}
    rep.assumptions = [
        "for undefined/reserved names the exception must be BlackbirdSyntaxError naming identifier, line and column (0- or 1-based accepted)",
        "for the other classes any exception counts as refusal",
        "include-call faults (wrong arity/keywords) are exercised by C07's harness",
        "reference: bbverif/ref/interp.py Reject cases",
    ]
    specs = gen_specs(t, common.seed())
    results = U.run_parallel(_script.run_spec, [(MOD, s) for s in specs])
    # grammar sentences enumerated by the solver (bbverif/checks/_gwin.py) that the reference refuses: undeclared names in
    # every syntactic position of a token window, non-integer modes, values that are not of the loop type
    gs = _gwin.specs_for(rep, t, "reject")
    results += U.run_parallel(_gwin.run_gspec, [(MOD, g) for g in gs])

    def fkey(r):
        if r["spec"][0] == "G":
            return "G/%s: " % r["spec"][1] + _script.default_key(r)
        return FAULTS[r["spec"][0]][0] + "/" + FAULTS[r["spec"][0]][1] + ": " + _script.default_key(r)

    U.collect(rep, results, key_fn=fkey,
              replay_fn=_script.replay_src(MOD),
              sample_fn=lambda r: {"script": r["text"], "paths": r["paths"], "fault": (["grammar window", r["spec"][1]] if r["spec"][0] == "G" else list(FAULTS[r["spec"][0]][:2]))})
    return rep.finish()


if __name__ == "__main__":
    sys.exit(main())
