"""C14 - shipped lexers and parsers recognise exactly the language of blackbird.g4.

O0 artefact identity (direct comparison, no solver)
O1 lexer: per-rule bounded language equivalence ATN vs g4 NFA over symbolic characters,
   token types / skip actions, first-token function equality
O2 parser: per-rule right-hand-side equivalence, CFG-level equivalence from `expression`
   and `start` over symbolic token sequences, precedence structure
Every sat answer is replayed on the real lexer/parser; solver witnesses additionally
validate the encoder against the real runtime.
"""
import os
import sys
import time
import random

import z3

from .. import common
from ..atnsmt import atns, nfa, cfg, lang as langmod

PID = "C14"

BOUNDS = {
    "quick": {"M": 20, "Mf": 10, "K": 32, "N_expr": 11, "N_start": 14},
    "thorough": {"M": 64, "Mf": 18, "K": 64, "N_expr": 15, "N_start": 19},
}


# --------------------------------------------------------------------------- O0
def o0_identity(rep, lg):
    A = atns.all_atns()
    distinct = {"lexer": [], "parser": []}
    for kind in ("lexer", "parser"):
        ref_label = "python/blackbird%s.py" % ("Lexer" if kind == "lexer" else "Parser")
        ref = A[kind][ref_label]
        for label, ints in A[kind].items():
            same = ints == ref
            rep.obligation("O0 atn-identity %s == %s" % (label, ref_label), "holds" if same else "violated",
                           length=len(ints))
            rep.evaluations += 1
            if not same:
                distinct[kind].append((label, ints))
                idx = next((i for i, (a, b) in enumerate(zip(ints, ref)) if a != b), min(len(ints), len(ref)))
                rep.violation("O0:%s:%s" % (kind, label),
                              "serialized %s ATN of %s differs from %s at index %d" % (kind, label, ref_label, idx),
                              _replay_src("identity", {"kind": kind, "label": label}), "o0_%s_%s" % (kind, label.replace("/", "_")))
    # names
    g = lg.g
    tn = g.token_names
    exp_sym = ["<INVALID>"] + tn
    exp_rules_lex = [n for (n, a, f, ac) in g.lexer_rules if not f]
    exp_rules_lex_all = [n for (n, a, f, ac) in g.lexer_rules]
    exp_rules_par = [n for (n, _, _) in g.parser_rules]
    lits = {}
    for (n, a, f, ac) in g.lexer_rules:
        if not f and a[0] == "lit":
            lits[n] = "'" + a[1] + "'"
    exp_lit = ["<INVALID>"] + [lits.get(n, "<INVALID>") for n in tn]
    while exp_lit and exp_lit[-1] == "<INVALID>" and len(exp_lit) > 1:
        exp_lit.pop()

    def cmp(name, got, exp):
        ok = list(got) == list(exp)
        rep.obligation("O0 names " + name, "holds" if ok else "violated")
        rep.evaluations += 1
        if not ok:
            rep.violation("O0:names:" + name, "%s: generated artefact has %r..., grammar prescribes %r..." % (
                name, _firstdiff(got, exp)[0], _firstdiff(got, exp)[1]),
                _replay_src("names", {"name": name}), "o0_names_" + name.replace("/", "_").replace(" ", "_"))

    L, P = lg.L, lg.P
    cmp("python lexer ruleNames", L.blackbirdLexer.ruleNames, exp_rules_lex_all)
    cmp("python lexer symbolicNames", L.blackbirdLexer.symbolicNames, exp_sym)
    cmp("python parser ruleNames", P.blackbirdParser.ruleNames, exp_rules_par)
    cmp("python parser symbolicNames", P.blackbirdParser.symbolicNames, exp_sym)
    # the Python target of ANTLR 4.9.2 emits literalNames compacted (entries without a literal are dropped)
    exp_lit_py = ["<INVALID>"] + [x for x in exp_lit[1:] if x != "<INVALID>"]
    cmp("python lexer literalNames", _pylit(L.blackbirdLexer.literalNames), exp_lit_py)
    cmp("python parser literalNames", _pylit(P.blackbirdParser.literalNames), exp_lit)
    for kind in ("lexer", "parser"):
        cn = atns.cpp_names(kind)
        cmp("cpp %s ruleNames" % kind, cn["_ruleNames"], exp_rules_lex_all if kind == "lexer" else exp_rules_par)
        cmp("cpp %s symbolicNames" % kind, _cppsym(cn["_symbolicNames"]), exp_sym)
        cmp("cpp %s literalNames" % kind, _cpplit(cn["_literalNames"]), exp_lit)
    exp_tokens = {n: i + 1 for i, n in enumerate(tn)}
    for n, l in lits.items():
        exp_tokens[l] = exp_tokens[n]
    for d, files in ((atns.PYDIR, ("blackbird.tokens", "blackbirdLexer.tokens")),
                     (atns.CPPDIR, ("blackbird.tokens", "blackbirdLexer.tokens"))):
        for f in files:
            got = atns.tokens_file(os.path.join(d, f))
            ok = got == exp_tokens
            rep.obligation("O0 tokens-file %s/%s" % (os.path.basename(d), f), "holds" if ok else "violated")
            rep.evaluations += 1
            if not ok:
                diff = sorted(set(got.items()) ^ set(exp_tokens.items()))[:4]
                rep.violation("O0:tokens:%s/%s" % (os.path.basename(d), f),
                              "%s/%s disagrees with the grammar's token numbering: %r" % (os.path.basename(d), f, diff),
                              _replay_src("tokens", {"dir": d, "file": f}), "o0_tokens_%s_%s" % (os.path.basename(d), f))
    # interp names
    for d, f, kind in ((atns.PYDIR, "blackbird.interp", "parser"), (atns.PYDIR, "blackbirdLexer.interp", "lexer"),
                       (atns.CPPDIR, "blackbird.interp", "parser"), (atns.CPPDIR, "blackbirdLexer.interp", "lexer")):
        sec = atns.interp(os.path.join(d, f))
        cmp("%s/%s rule names" % (os.path.basename(d), f), sec["rule names"],
            exp_rules_lex_all if kind == "lexer" else exp_rules_par)
        cmp("%s/%s token symbolic names" % (os.path.basename(d), f),
            [x if x != "null" else "<INVALID>" for x in sec["token symbolic names"]], exp_sym)
    # generated listener has enter/exit for every rule and labelled alternative
    import blackbird.blackbirdListener as BL
    want = []
    for (n, a, infos) in g.parser_rules:
        labels = [i["label"] for i in infos if i["label"]]
        if labels:
            want.extend(labels)
        else:
            want.append(n[0].upper() + n[1:])
    missing = [w for w in want if not (hasattr(BL.blackbirdListener, "enter" + w) and hasattr(BL.blackbirdListener, "exit" + w))]
    rep.obligation("O0 generated listener methods", "holds" if not missing else "violated")
    rep.evaluations += 1
    if missing:
        rep.violation("O0:listener", "blackbirdListener.py lacks enter/exit methods for %r" % missing,
                      _replay_src("listener", {}), "o0_listener")
    return distinct


def _firstdiff(a, b):
    a, b = list(a), list(b)
    for i in range(max(len(a), len(b))):
        x = a[i] if i < len(a) else None
        y = b[i] if i < len(b) else None
        if x != y:
            return (i, x), (i, y)
    return None, None


def _pylit(xs):
    out = list(xs)
    return out


def _cpplit(xs):
    return ["<INVALID>" if x == "" else x for x in xs]


def _cppsym(xs):
    return ["<INVALID>" if x == "" else x for x in xs]


# --------------------------------------------------------------------------- O1
def o1_lexer(rep, lg, M, tag="python"):
    t0 = time.time()
    GA = lg.lexer_A()
    GG = lg.lexer_G()
    cs = [z3.BitVec("c%d" % i, 21) for i in range(M)]
    sol = z3.Solver()
    for c in cs:
        sol.add(z3.ULE(c, nfa.MAXCP))
    names_a = [n for (n, _, _) in GA]
    names_g = [n for (n, _, _) in GG]
    if names_a != names_g:
        rep.obligation("O1 %s lexer rule list" % tag, "violated")
        rep.violation("O1:%s:rulelist" % tag, "lexer ATN rule list %r... differs from grammar %r..." % _firstdiff(names_a, names_g),
                      _replay_src("names", {"name": "lexer rule list"}), "o1_rulelist_" + tag)
        return
    accA, accG = {}, {}
    for (n, ta, ma), (_, tg, mg) in zip(GA, GG):
        aa = nfa.unroll(ma, cs)
        ag = nfa.unroll(mg, cs)
        accA[n], accG[n] = aa, ag
        rep.states += ma.n + mg.n
        rep.transitions += len(ma.edges) + len(mg.edges)
        # token type and skip action
        acts_a = set(lg.lexer_actions.get(n, []))
        skip_a = "LexerSkipAction" in acts_a
        skip_g = n in lg.skip_g
        if ta != tg or skip_a != skip_g or (acts_a - {"LexerSkipAction"}):
            rep.obligation("O1 %s token-type/action %s" % (tag, n), "violated")
            rep.violation("O1:%s:type:%s" % (tag, n),
                          "lexer rule %s: ATN token type %r actions %r, grammar type %r skip=%r" % (n, ta, sorted(acts_a), tg, skip_g),
                          _replay_src("names", {"name": "lexer type " + n}), "o1_type_%s_%s" % (tag, n))
        sol.push()
        sol.add(z3.Or([a != b for a, b in zip(aa, ag)]))
        t1 = time.time()
        r = sol.check()
        rep.count(r, time.time() - t1)
        rep.evaluations += 1
        rep.distinct.add(("lexrule", tag, n))
        if str(r) == "sat":
            mdl = sol.model()
            s = _model_string(mdl, cs, aa, ag)
            sol.pop()
            _lexer_violation(rep, lg, tag, n, s)
            rep.obligation("O1 %s rule %s  acc_ATN[k] <=> acc_g4[k], all strings, k<=%d" % (tag, n, M), "violated", witness=s)
        else:
            sol.pop()
            rep.obligation("O1 %s rule %s  acc_ATN[k] <=> acc_g4[k], all strings, k<=%d" % (tag, n, M),
                           "holds" if str(r) == "unsat" else "inconclusive", solver=str(r))
    # first-token function (direct query at the smaller bound Mf; for Mf < k <= M it is a corollary of the
    # per-rule equivalences above, since the function is defined from the acc predicates only)
    M_rules = M
    M = min(M, BOUNDS[common.tier()]["Mf"])
    n = z3.BitVec("len", 8)
    sol.add(z3.ULE(n, M), z3.UGE(n, 1))
    toks = [(nm, t) for (nm, t, _) in GG if t is not None]

    def wins(acc):
        w = {}
        anyk = [z3.Or([acc[nm][k] for nm, _ in toks]) for k in range(M + 1)]
        for k in range(1, M + 1):
            longer = z3.Or([z3.And(z3.UGE(n, k2), anyk[k2]) for k2 in range(k + 1, M + 1)]) if k < M else z3.BoolVal(False)
            earlier = []
            for nm, t in toks:
                w[(nm, k)] = z3.And(z3.UGE(n, k), acc[nm][k], z3.Not(longer), z3.Not(z3.Or(earlier)) if earlier else True)
                earlier.append(acc[nm][k])
        return w

    wa, wg = wins(accA), wins(accG)
    sol.push()
    sol.add(z3.Or([wa[k] != wg[k] for k in wa]))
    t1 = time.time()
    r = sol.check()
    rep.count(r, time.time() - t1)
    rep.evaluations += 1
    if str(r) == "sat":
        mdl = sol.model()
        ln = mdl.eval(n, model_completion=True).as_long()
        s = "".join(chr(mdl.eval(c, model_completion=True).as_long()) for c in cs[:ln])
        sol.pop()
        _lexer_violation(rep, lg, tag, "first-token", s)
        rep.obligation("O1 %s first-token function ATN == g4, strings <= %d" % (tag, M), "violated", witness=s)
    else:
        sol.pop()
        rep.obligation("O1 %s first-token function ATN == g4, strings <= %d" % (tag, M),
                       "holds" if str(r) == "unsat" else "inconclusive", solver=str(r))
    # encoder validation: solver-chosen strings where rule r wins with length k (small separate unrolling)
    if tag == "python":
        nval = 0
        bad = []
        kmax = 3 if common.tier() == "quick" else 6
        Mw = kmax + 2
        cw = [z3.BitVec("w%d" % i, 21) for i in range(Mw)]
        sw = z3.Solver()
        for c in cw:
            sw.add(z3.ULE(c, nfa.MAXCP))
        accW = {}
        for (nm, t_, m) in GG:
            if t_ is None:
                continue
            named = []
            for k, e in enumerate(nfa.unroll(m, cw)):
                b = z3.Bool("acc_%s_%d" % (nm, k))
                sw.add(b == e)
                named.append(b)
            accW[nm] = named
        anyk = []
        for k in range(Mw + 1):
            b = z3.Bool("any_%d" % k)
            sw.add(b == z3.Or([accW[nm][k] for nm, _ in toks]))
            anyk.append(b)
        for ti, (nm, t) in enumerate(toks):
            for k in range(1, kmax + 1):
                sw.push()
                sw.add(accW[nm][k])
                sw.add(z3.Not(z3.Or([anyk[k2] for k2 in range(k + 1, Mw + 1)])))
                for (nm2, _) in toks[:ti]:
                    sw.add(z3.Not(accW[nm2][k]))
                r = sw.check()
                rep.count(r)
                if str(r) == "sat":
                    mdl = sw.model()
                    s = "".join(chr(mdl.eval(c, model_completion=True).as_long()) for c in cw)
                    realt = _real_first(lg, s)
                    nval += 1
                    if realt != (t, k):
                        bad.append((s, nm, k, realt))
                    rep.sample({"lexer_witness": s, "rule": nm, "len": k, "real_first_token": list(realt)}, limit=6)
                sw.pop()
        rep.validated += nval
        rep.extra["lexer_witnesses_validated"] = nval
        if bad:
            raise common.HarnessError("lexer encoding disagrees with the real lexer on solver witnesses: %r" % bad[:3])
    rep.extra.setdefault("timing", {})["o1_" + tag] = round(time.time() - t0, 2)


def _real_first(lg, s):
    """(type, length) of the first token the real lexer produces, counting skipped tokens too"""
    import antlr4
    lx = lg.L.blackbirdLexer(antlr4.InputStream(s))
    lx.removeErrorListeners()
    # run the lexer's own match loop once without honouring 'skip'
    from antlr4 import Lexer
    lx._tokenStartCharIndex = lx._input.index
    lx._type = antlr4.Token.INVALID_TYPE
    ttype = lx._interp.match(lx._input, lx._mode)
    return (ttype, lx._input.index)


def _model_string(mdl, cs, aa, ag):
    k = None
    for i, (a, b) in enumerate(zip(aa, ag)):
        if z3.is_true(mdl.eval(a, model_completion=True)) != z3.is_true(mdl.eval(b, model_completion=True)):
            k = i
            break
    k = k if k is not None else len(cs)
    return "".join(chr(mdl.eval(c, model_completion=True).as_long()) for c in cs[:k])


def _lexer_violation(rep, lg, tag, rule, s):
    """replay: the real lexer vs the grammar-prescribed tokenisation of s"""
    if tag == "python":
        real = _real_stream(lg, s)
        want = [(t, x) for (t, x) in lg.tokenize("G", s)]
        if real == want:
            rep.unconfirmed.append({"where": "O1 " + rule, "string": s})
            return
        what = "string %r: real lexer gives %r, blackbird.g4 prescribes %r" % (s, _names(lg, real), _names(lg, want))
    else:
        a = lg.tokenize("A", s)
        want = lg.tokenize("G", s)
        if a == want:
            rep.unconfirmed.append({"where": "O1 " + rule, "string": s})
            return
        what = "string %r: automaton of %s gives %r, blackbird.g4 prescribes %r" % (s, tag, _names(lg, a), _names(lg, want))
    rep.violation("O1:%s:%s" % (tag, rule), what, _replay_src("lex", {"tag": tag, "s": s}), "o1_%s_%s" % (tag.replace("/", "_"), rule))


def _real_stream(lg, s):
    """all tokens incl. skipped ones, via repeated single matches of the real lexer simulator"""
    import antlr4
    lx = lg.L.blackbirdLexer(antlr4.InputStream(s))
    lx.removeErrorListeners()
    out = []
    while lx._input.index < len(s):
        start = lx._input.index
        lx._tokenStartCharIndex = start
        try:
            ttype = lx._interp.match(lx._input, lx._mode)
        except Exception:
            ttype = None
            lx._input.seek(start + 1)
        out.append((ttype, s[start:lx._input.index]))
        if lx._input.index == start:
            break
    return out


def _names(lg, toks):
    return [(lg.tok_names.get(t, t), x) for (t, x) in toks]


# --------------------------------------------------------------------------- O2
def o2_rhs(rep, lg, K, tag="python"):
    NA, NG = lg.parser_A(), lg.parser_G()
    ss = [z3.BitVec("s%d" % i, 8) for i in range(K)]
    sol = z3.Solver()
    differing = []
    for ri, name in enumerate(lg.rule_names):
        aa = nfa.unroll(NA[ri], ss)
        ag = nfa.unroll(NG[ri], ss)
        rep.states += NA[ri].n + NG[ri].n
        rep.transitions += len(NA[ri].edges) + len(NG[ri].edges)
        sol.push()
        sol.add(z3.Or([a != b for a, b in zip(aa, ag)]))
        t1 = time.time()
        r = sol.check()
        rep.count(r, time.time() - t1)
        rep.evaluations += 1
        rep.distinct.add(("rhs", tag, name))
        if str(r) == "sat":
            mdl = sol.model()
            k = next(i for i, (a, b) in enumerate(zip(aa, ag)) if z3.is_true(mdl.eval(a, model_completion=True)) != z3.is_true(mdl.eval(b, model_completion=True)))
            w = [mdl.eval(s, model_completion=True).as_long() for s in ss[:k]]
            differing.append((ri, name, w))
            rep.obligation("O2i %s rule %s RHS language ATN == g4 (<=%d symbols)" % (tag, name, K),
                           "differs", witness=_symnames(lg, w))
        else:
            rep.obligation("O2i %s rule %s RHS language ATN == g4 (<=%d symbols)" % (tag, name, K),
                           "holds" if str(r) == "unsat" else "inconclusive", solver=str(r))
        sol.pop()
    return differing


def _symnames(lg, w):
    return [lg.tok_names.get(v, "?") if v < nfa.RULE_BASE else "<%s>" % lg.rule_names[v - nfa.RULE_BASE] for v in w]


def cfg_query(args):
    """worker: CFG-level equivalence from rule `root` for sentences of length exactly n
    (all lengths <= n when n_only False).  Returns dict."""
    root, n, exact, tag_ints = args
    t0 = time.time()
    patn = atns.deserialize(tag_ints) if tag_ints is not None else None
    lg = langmod.Lang(parser_atn=patn)
    NA, NG = lg.parser_A(), lg.parser_G()
    toks = [z3.BitVec("t%d" % i, 8) for i in range(n)]
    ca = cfg.CFG(NA, toks, "A")
    cg = cfg.CFG(NG, toks, "G")
    r = lg.rule_ids[root]
    try:
        ks = [n] if exact else list(range(1, n + 1))
        pairs = [(k, ca.X(r, 0, k), cg.X(r, 0, k)) for k in ks]
    except cfg.CycleError as e:
        return {"root": root, "n": n, "result": "inconclusive", "why": str(e), "dt": time.time() - t0}
    sol = z3.Solver()
    ntok = len(lg.token_names)
    for t in toks:
        sol.add(z3.ULE(t, ntok))
    sol.add(z3.Or([a != b for (_, a, b) in pairs]))
    t1 = time.time()
    res = sol.check()
    dt = time.time() - t1
    out = {"root": root, "n": n, "exact": exact, "result": str(res), "dt": dt, "build_s": t1 - t0,
           "defs": ca.ndefs + cg.ndefs}
    if str(res) == "sat":
        mdl = sol.model()
        for (k, a, b) in pairs:
            va = z3.is_true(mdl.eval(a, model_completion=True))
            vb = z3.is_true(mdl.eval(b, model_completion=True))
            if va != vb:
                out["witness"] = [mdl.eval(t, model_completion=True).as_long() for t in toks[:k]]
                out["atn_accepts"] = va
                out["g4_accepts"] = vb
                break
    return out


def o2_cfg(rep, lg, root, N, tag="python", ints=None, exact_from=None):
    """all lengths <= N; lengths >= exact_from are split into one query per length (parallel)"""
    jobs = []
    if exact_from is None or exact_from > N:
        jobs.append((root, N, False, ints))
    else:
        jobs.append((root, exact_from - 1, False, ints))
        for n in range(exact_from, N + 1):
            jobs.append((root, n, True, ints))
    results = common.pmap(cfg_query, jobs)
    for res in results:
        rep.count(res["result"] if res["result"] in ("sat", "unsat") else "unknown", res.get("dt", 0))
        rep.evaluations += 1
        rep.distinct.add(("cfg", tag, root, res["n"], res.get("exact")))
        name = "O2ii %s L_ATN(%s) == L_g4(%s), token sequences of length %s%d" % (
            tag, root, root, "" if res.get("exact") else "<=", res["n"])
        if res["result"] == "unsat":
            rep.obligation(name, "holds", solver_s=round(res["dt"], 2), definitions=res.get("defs"))
        elif res["result"] == "sat":
            w = res["witness"]
            rep.obligation(name, "violated", witness=_symnames(lg, w))
            _parser_violation(rep, lg, tag, root, w, res["atn_accepts"], res["g4_accepts"])
        else:
            rep.obligation(name, "inconclusive", why=res.get("why", res["result"]))


def _parser_violation(rep, lg, tag, root, w, atn_accepts, g4_accepts):
    names = _symnames(lg, w)
    if tag == "python" and root == "start":
        # replay on the real parser (token level)
        seq = w[:-1] if w and w[-1] == 0 else w
        if 0 in seq or not w or w[-1] != 0:
            # EOF in the middle / missing: both sides reject by construction; not replayable
            rep.unconfirmed.append({"where": "O2ii start", "tokens": names})
            return
        ok, errs = lg.real_parse_tokens(seq)
        if ok == g4_accepts:
            rep.unconfirmed.append({"where": "O2ii start", "tokens": names, "real": ok})
            return
        what = "token sequence %r: real parser %s, blackbird.g4 %s" % (
            names, "accepts" if ok else "rejects", "derives it" if g4_accepts else "does not derive it")
    else:
        what = "from rule %s, token sequence %r: automaton of %s %s, blackbird.g4 %s" % (
            root, names, tag, "accepts" if atn_accepts else "rejects", "derives it" if g4_accepts else "does not derive it")
    rep.violation("O2:%s:%s" % (tag, root), what, _replay_src("parse", {"tag": tag, "root": root, "w": w}),
                  "o2_%s_%s" % (tag.replace("/", "_"), root))


def o2_precedence(rep, lg, tag="python"):
    """precedence numbers in the ATN equal those ANTLR's left-recursion rewrite assigns to the g4 alternatives"""
    from antlr4.atn.Transition import Transition
    g = lg.g
    patn = lg.patn
    for ri, (name, ast, infos) in enumerate(g.parser_rules):
        alts = ast[1] if ast[0] == "alt" else [ast]
        n = len(alts)
        expected_bin = []   # (precpred, operator token set, rhs call precedence)
        expected_prefix = []
        leftrec = False
        for i, (a, info) in enumerate(zip(alts, infos)):
            elems = a[1] if a[0] == "seq" else [a]
            starts = elems[0] == ("rule", name)
            ends = elems[-1] == ("rule", name)
            prec = n - i
            if starts and ends and len(elems) >= 3:
                leftrec = True
                ops = _tokset(lg, elems[1:-1])
                expected_bin.append((prec, ops, prec if info["assoc"] == "right" else prec + 1))
            elif starts:
                leftrec = True
                expected_bin.append((prec, _tokset(lg, elems[1:]), None))
            elif ends and len(elems) >= 2 and all(e[0] != "rule" or e[1] != name for e in elems[:-1]):
                expected_prefix.append((_tokset(lg, elems[:-1]), prec))
        if not leftrec:
            # no precedence predicates may exist in this rule
            lg.parser_A()
            got = lg.parser_info[ri]["precpreds"]
            ok = not got
            rep.obligation("O2iii %s rule %s has no precedence predicates" % (tag, name), "holds" if ok else "violated")
            if not ok:
                rep.violation("O2:prec:%s:%s" % (tag, name), "rule %s has precedence predicates %r in the ATN but is not left-recursive in g4" % (name, got),
                              _replay_src("names", {"name": "prec"}), "o2_prec_%s_%s" % (tag, name))
            continue
        # walk the ATN: from each precedence predicate collect operator tokens up to the recursive call
        got_bin = []
        got_prefix = []
        start = patn.ruleToStartState[ri]
        seen = set()
        stack = [start]
        states = []
        while stack:
            st = stack.pop()
            if st.stateNumber in seen or st.ruleIndex != ri:
                continue
            seen.add(st.stateNumber)
            states.append(st)
            for tr in st.transitions:
                tgt = tr.followState if tr.serializationType == Transition.RULE else tr.target
                stack.append(tgt)

        def follow(st, toks):
            """follow a linear chain collecting token sets until a call to rule ri; returns (toks, precedence)"""
            for _ in range(50):
                if len(st.transitions) != 1:
                    return toks, None
                tr = st.transitions[0]
                ty = tr.serializationType
                if ty == Transition.RULE:
                    if tr.ruleIndex == ri:
                        return toks, tr.precedence
                    return toks, None
                if ty == Transition.ATOM:
                    toks = toks | {tr.label_}
                elif ty in (Transition.SET,):
                    toks = toks | {v for iv in tr.label.intervals for v in range(iv.start, iv.stop)}
                elif ty == Transition.RANGE:
                    toks = toks | set(range(tr.start, tr.stop + 1))
                elif ty not in (Transition.EPSILON,):
                    return toks, None
                st = tr.target
            return toks, None

        for st in states:
            for tr in st.transitions:
                if tr.serializationType == Transition.PRECEDENCE:
                    toks, callp = follow(tr.target, frozenset())
                    got_bin.append((tr.precedence, frozenset(toks), callp))
        # prefix alternatives: primary-block alternatives that end in a call of ri with precedence > 0
        for st in states:
            for tr in st.transitions:
                if tr.serializationType == Transition.RULE and tr.ruleIndex == ri and tr.precedence > 0:
                    got_prefix.append(tr.precedence)
        exp_calls = sorted([p for (_, _, p) in expected_bin if p is not None] + [p for (_, p) in expected_prefix])
        ok = sorted(got_bin, key=repr) == sorted([(a, frozenset(b), c) for (a, b, c) in expected_bin], key=repr) \
            and sorted(got_prefix) == exp_calls
        rep.evaluations += 1
        rep.obligation("O2iii %s rule %s precedence predicates/calls = ANTLR rewrite of g4 alternative order" % (tag, name),
                       "holds" if ok else "violated",
                       atn=[(a, sorted(b), c) for (a, b, c) in got_bin], atn_calls=sorted(got_prefix),
                       g4=[(a, sorted(b), c) for (a, b, c) in expected_bin], g4_calls=exp_calls)
        if not ok:
            rep.violation("O2:prec:%s:%s" % (tag, name),
                          "rule %s: ATN operators/precedences %r calls %r; g4 alternative order prescribes %r calls %r" % (
                              name, sorted([(a, sorted(b), c) for (a, b, c) in got_bin]), sorted(got_prefix),
                              sorted([(a, sorted(b), c) for (a, b, c) in expected_bin]), exp_calls),
                          _replay_src("prec", {}), "o2_prec_%s_%s" % (tag, name))


def _tokset(lg, elems):
    out = set()

    def walk(e):
        if e[0] == "tok":
            out.add(lg.tok_ids[e[1]])
        elif e[0] in ("alt", "seq"):
            for x in e[1]:
                walk(x)
        elif e[0] in ("star", "plus", "opt"):
            walk(e[1])
        elif e[0] == "rule":
            out.add(nfa.RULE_BASE + lg.rule_ids[e[1]])
    for e in elems:
        walk(e)
    return frozenset(out)


# ------------------------------------------------------------- parser encoder validation
def validate_parser(rep, lg, N, count, rnd):
    """solver-generated sentences and single-token mutants through the real parser and both encodings"""
    NG = lg.parser_G()
    n = min(N, 12)
    toks = [z3.BitVec("t%d" % i, 8) for i in range(n + 1)]
    cg = cfg.CFG(NG, toks, "G")
    r = lg.rule_ids["start"]
    sol = z3.Solver()
    ntok = len(lg.token_names)
    skip = lg.skip_token_types()
    for t in toks:
        sol.add(z3.ULE(t, ntok))
        for s in skip:
            sol.add(t != s)
    previous = []      # token sequences the real parser has seen so far in this process, in order
    bad = []
    done = 0
    for k in range(4, n + 2):
        acc = cg.X(r, 0, k)
        for rep_i in range(max(1, count // (n - 2))):
            sol.push()
            sol.add(acc)
            # random steering: pin one position to a random token that keeps it sat
            for _ in range(2):
                pos = rnd.randrange(0, k - 1)
                tv = rnd.randrange(1, ntok + 1)
                sol.push()
                sol.add(toks[pos] == tv)
                if str(sol.check()) != "sat":
                    sol.pop()
                else:
                    break
            else:
                sol.push()
            if str(sol.check()) != "sat":
                sol.pop()
                sol.pop()
                continue
            mdl = sol.model()
            sent = [mdl.eval(t, model_completion=True).as_long() for t in toks[:k]]
            sol.pop()
            sol.pop()
            cands = [sent]
            # single-token mutants
            for _ in range(2):
                m = list(sent)
                pos = rnd.randrange(0, k - 1)
                op = rnd.choice(("del", "sub", "ins"))
                tv = rnd.choice([t for t in range(1, ntok + 1) if t not in skip])
                if op == "del":
                    del m[pos]
                elif op == "sub":
                    m[pos] = tv
                else:
                    m.insert(pos, tv)
                cands.append(m)
            for c in cands:
                if not c or c[-1] != 0 or 0 in c[:-1]:
                    continue
                enc = cfg.concrete_derives(NG, r, c)
                enc_a = cfg.concrete_derives(lg.parser_A(), r, c)
                real, errs = lg.real_parse_tokens(c[:-1])
                done += 1
                if enc_a != real or (not rep.violations and enc != real):
                    # grammar and shipped automaton agree with each other and the generated parser disagrees: if the same parser, asked
                    # in a process of its own, gives the prescribed verdict, then its verdict on this token sequence depends on what
                    # was parsed before - on a token sequence the parser must give the verdict the grammar prescribes, whatever came first
                    hist = _history_dependence(lg, previous, c, enc) if enc == enc_a else None
                    if hist is not None:
                        rep.violation("O2h:history", "the verdict of the generated parser on a token sequence depends on what the same process parsed before: after %r it %s %r, "
                                      "which blackbird.g4 and the shipped automaton %s (and so does the parser in a process of its own)"
                                      % ([_symnames(lg, h) for h in hist], "accepts" if real else "rejects", _symnames(lg, c), "derive" if enc else "reject"),
                                      _replay_src("parse_history", {"history": hist, "w": c}), "o2h_%d" % len(rep.violations))
                    else:
                        bad.append((_symnames(lg, c), enc, enc_a, real))
                previous.append(list(c))
                if c is sent:
                    rep.sample({"parser_sentence": _symnames(lg, c), "real_parser_accepts": real}, limit=9)
    rep.validated += done
    rep.extra["parser_sentences_and_mutants_validated"] = done
    if bad:
        raise common.HarnessError("parser encoding disagrees with the real parser: %r" % bad[:3])


def validate_generated_code(rep, lg, per_rule, rnd, nmut):
    """The generated parser *code* (blackbirdParser.py methods) is a further artefact next to the serialized ATN.
    It cannot be encoded, so it is exercised systematically: for every parser rule, every right-hand-side variant of the
    grammar NFA up to a length bound is expanded to a token sentence (minimal expansions, embedded in a context from
    `start`) and parsed by the real generated parser; single-token mutants of these sentences are compared with the
    CFG encoding of the shipped ATN.  Concrete validation, reported as such."""
    import heapq
    NG = lg.parser_G()
    nrules = len(lg.rule_names)
    INF = 10 ** 6
    out_edges = {}
    for r, m in NG.items():
        o = {}
        for a, l, b in m.edges:
            for v in l[1]:
                o.setdefault(a, []).append((v, b))
        out_edges[r] = o
    minexp = {r: None for r in NG}

    def cost(v):
        if v < nfa.RULE_BASE:
            return 1
        e = minexp[v - nfa.RULE_BASE]
        return INF if e is None else max(len(e), 0)

    def shortest(r, src, targets):
        """cheapest symbol path in rule r from state src to any of targets: list of symbols"""
        dist = {src: (0, [])}
        pq = [(0, 0, src, [])]
        cnt = 0
        while pq:
            d, _, s_, path = heapq.heappop(pq)
            if s_ in targets:
                return path
            if d > dist.get(s_, (INF,))[0]:
                continue
            for v, b in out_edges[r].get(s_, ()):
                c = cost(v)
                if c >= INF:
                    continue
                nd = d + c
                if nd < dist.get(b, (INF,))[0]:
                    dist[b] = (nd, path + [v])
                    cnt += 1
                    heapq.heappush(pq, (nd, cnt, b, path + [v]))
        return None

    def expand(symbols):
        outp = []
        for v in symbols:
            if v < nfa.RULE_BASE:
                outp.append(v)
            else:
                outp.extend(minexp[v - nfa.RULE_BASE])
        return outp

    changed = True
    while changed:
        changed = False
        for r, m in NG.items():
            pth = shortest(r, m.start, m.accept)
            if pth is not None:
                e = expand(pth)
                if minexp[r] is None or len(e) < len(minexp[r]):
                    minexp[r] = e
                    changed = True
    # contexts
    start = lg.rule_ids["start"]
    ctx = {start: ([], [])}
    queue = [start]
    while queue:
        q = queue.pop(0)
        m = NG[q]
        for a, l, b in m.edges:
            for v in l[1]:
                if v >= nfa.RULE_BASE and (v - nfa.RULE_BASE) not in ctx:
                    pre = shortest(q, m.start, {a})
                    post = shortest(q, b, m.accept)
                    if pre is None or post is None:
                        continue
                    ctx[v - nfa.RULE_BASE] = (ctx[q][0] + expand(pre), expand(post) + ctx[q][1])
                    queue.append(v - nfa.RULE_BASE)
    bad = []
    done = 0
    sentences = []
    for r, m in NG.items():
        if r not in ctx:
            continue
        # enumerate RHS strings (DFS, bounded length, bounded count, each edge preferred once)
        found = []
        stack = [(m.start, [])]
        while stack and len(found) < per_rule:
            s_, path = stack.pop()
            if s_ in m.accept and path:
                found.append(path)
            if len(path) >= 9:
                continue
            for v, b in reversed(out_edges[r].get(s_, ())):
                if cost(v) < INF:
                    stack.append((b, path + [v]))
        for path in found:
            sent = ctx[r][0] + expand(path) + ctx[r][1]
            if not sent or sent[-1] != 0 or 0 in sent[:-1] or len(sent) > 60:
                continue
            ok, errs = lg.real_parse_tokens(sent[:-1])
            done += 1
            if not ok:
                bad.append(("sentence of rule %s variant %r rejected by the generated parser code" % (lg.rule_names[r], _symnames(lg, path)), sent))
            sentences.append(sent)
    # FIRST-set coverage: the generated code guards every optional / repeated / alternative sub-rule with a test of the next
    # token against the set of tokens the sub-rule can start with.  For every place where a rule q refers to a rule r and every
    # token t that r can start with, one sentence goes through that place with r's part starting with t.
    nullable = cfg.CFG(NG, [], "n").nullable
    firstexp = {r: {} for r in NG}
    changed = True
    while changed:
        changed = False
        for r, m in NG.items():
            # states reachable from the start through nullable rule references only
            reach = {m.start}
            work = [m.start]
            while work:
                s_ = work.pop()
                for v, b in out_edges[r].get(s_, ()):
                    if v >= nfa.RULE_BASE and (v - nfa.RULE_BASE) in nullable and b not in reach:
                        reach.add(b)
                        work.append(b)
            for s_ in reach:
                for v, b in out_edges[r].get(s_, ()):
                    tail = shortest(r, b, m.accept)
                    if tail is None:
                        continue
                    tail = expand(tail)
                    heads = {v: [v]} if v < nfa.RULE_BASE else firstexp[v - nfa.RULE_BASE]
                    for t, h in list(heads.items()):
                        cand = h + tail
                        if t not in firstexp[r] or len(cand) < len(firstexp[r][t]):
                            firstexp[r][t] = cand
                            changed = True
    nfirst = 0
    for q, m in NG.items():
        if q not in ctx:
            continue
        for a, l, b in m.edges:
            for v in l[1]:
                if v < nfa.RULE_BASE:
                    continue
                r = v - nfa.RULE_BASE
                pre = shortest(q, m.start, {a})
                post = shortest(q, b, m.accept)
                if pre is None or post is None:
                    continue
                for t, body in sorted(firstexp[r].items()):
                    sent = ctx[q][0] + expand(pre) + body + expand(post) + ctx[q][1]
                    if not sent or sent[-1] != 0 or 0 in sent[:-1] or len(sent) > 70:
                        continue
                    if not cfg.concrete_derives(NG, start, sent):
                        continue        # (left-recursive contexts: the assembled sequence is not a sentence)
                    ok, errs = lg.real_parse_tokens(sent[:-1])
                    done += 1
                    nfirst += 1
                    if not ok:
                        bad.append(("sentence in which %s (inside %s) starts with %s is rejected by the generated parser code"
                                    % (lg.rule_names[r], lg.rule_names[q], lg.tok_names.get(t, t)), sent))
    rep.extra["first_set_coverage_sentences"] = nfirst
    rnd.shuffle(sentences)
    ntok = len(lg.token_names)
    skip = lg.skip_token_types()
    r0 = lg.rule_ids["start"]
    NA = lg.parser_A()
    for sent in sentences[:nmut]:
        for _ in range(2):
            mt = list(sent)
            pos = rnd.randrange(0, len(mt) - 1)
            op = rnd.choice(("del", "sub", "swap"))
            if op == "del":
                del mt[pos]
            elif op == "sub":
                mt[pos] = rnd.choice([t for t in range(1, ntok + 1) if t not in skip])
            elif pos + 2 < len(mt):
                mt[pos], mt[pos + 1] = mt[pos + 1], mt[pos]
            if len(mt) < 2 or len(mt) > 40:
                continue
            enc = cfg.concrete_derives(NA, r0, mt)
            ok, errs = lg.real_parse_tokens(mt[:-1])
            done += 1
            if ok != enc:
                bad.append(("generated parser code %s a token sequence that the shipped automaton %s" % ("accepts" if ok else "rejects", "rejects" if ok else "accepts"), mt))
    rep.validated += done
    rep.extra["generated_parser_code_runs"] = done
    rep.obligation("O2iv generated parser code (blackbirdParser.py methods) agrees with the grammar on %d RHS-variant sentences and mutants (concrete)" % done,
                   "holds" if not bad else "violated")
    for what, sent in bad[:3]:
        rep.violation("O2iv:%s" % what.split(" ")[0], "%s: %r" % (what, _symnames(lg, sent)),
                      _replay_src("parse", {"tag": "python", "root": "start", "w": sent}), "o2iv_%d" % len(rep.violations))


def _allsat_regions(lg, tier):
    T = lg.tok_ids
    header = [T[x] for x in ("PROGNAME", "NAME", "NEWLINE", "VERSION", "FLOAT", "NEWLINE")]
    return [
        ("statement", header, [T[x] for x in ("NAME", "INT", "LBRAC", "RBRAC", "LSQBRAC", "RSQBRAC", "COMMA", "PLUS", "APPLY")], (3, 7 if tier == "quick" else 8), [T["NEWLINE"], 0]),
        ("statement after arguments", header + [T["NAME"], T["LBRAC"], T["FLOAT"], T["RBRAC"], T["APPLY"]],
         [T[x] for x in ("NAME", "INT", "LBRAC", "RBRAC", "LSQBRAC", "RSQBRAC", "COMMA", "TIMES", "PWR", "MINUS")], (1, 6 if tier == "quick" else 7), [T["NEWLINE"], 0]),
        ("for-loop header", header + [T[x] for x in ("FOR", "TYPE_INT", "NAME", "IN")],
         [T[x] for x in ("INT", "COLON", "LBRAC", "RBRAC", "LSQBRAC", "RSQBRAC", "COMMA", "PLUS", "NAME")], (1, 6 if tier == "quick" else 7),
         [T[x] for x in ("NEWLINE", "TAB", "NAME", "APPLY", "INT", "NEWLINE")] + [0]),
        # every decision of `arguments` / `kwarg` / `vallist` (optional comma, optional list, signed first elements)
        ("keyword arguments", header + [T["NAME"], T["LBRAC"]],
         [T[x] for x in ("NAME", "ASSIGN", "LSQBRAC", "RSQBRAC", "COMMA", "MINUS", "INT", "STR", "BOOL")], (0, 6 if tier == "quick" else 7),
         [T[x] for x in ("RBRAC", "APPLY", "INT", "NEWLINE")] + [0]),
        ("target options", [T[x] for x in ("PROGNAME", "NAME", "NEWLINE", "VERSION", "FLOAT", "NEWLINE", "TARGET", "NAME", "LBRAC")],
         [T[x] for x in ("NAME", "ASSIGN", "LSQBRAC", "RSQBRAC", "COMMA", "PLUS", "FLOAT", "STR")], (0, 5 if tier == "quick" else 6),
         [T[x] for x in ("RBRAC", "NEWLINE")] + [0]),
        # expression alternatives: functions, array elements, parameters, powers, signs
        ("expression", header + [T["NAME"], T["LBRAC"]],
         [T[x] for x in ("INT", "NAME", "MINUS", "TIMES", "PWR", "LBRAC", "RBRAC", "LOG", "SIN", "LSQBRAC", "RSQBRAC", "PI", "REGREF")], (1, 5 if tier == "quick" else 6),
         [T[x] for x in ("RBRAC", "APPLY", "INT", "NEWLINE")] + [0]),
        # declarations: scalar / array, optional shape, rows
        ("declaration", header,
         [T[x] for x in ("TYPE_INT", "TYPE_ARRAY", "NAME", "ASSIGN", "INT", "LSQBRAC", "RSQBRAC", "COMMA", "NEWLINE", "TAB", "MINUS", "LBRACE", "RBRACE")], (4, 8 if tier == "quick" else 9),
         [T["NEWLINE"], 0]),
    ]


def _allsat_job(arg):
    ri, k, tier = arg
    lg = langmod.Lang()
    NG, NA = lg.parser_G(), lg.parser_A()
    start = lg.rule_ids["start"]
    label, pre, alphabet, _, post = _allsat_regions(lg, tier)[ri]
    n = len(pre) + k + len(post)
    toks = [z3.BitVec("a%d" % i, 8) for i in range(n)]
    cg = cfg.CFG(NG, toks, "G")
    sol = z3.Solver()
    for i, v in enumerate(pre):
        sol.add(toks[i] == v)
    for i, v in enumerate(post):
        sol.add(toks[len(pre) + k + i] == v)
    for i in range(len(pre), len(pre) + k):
        sol.add(z3.Or([toks[i] == a for a in alphabet]))
    sol.add(cg.X(start, 0, n))
    out = {"label": label, "k": k, "classes": len(alphabet), "count": 0, "bad": [], "sat": 0, "unsat": 0, "unknown": 0, "dt": 0.0}
    t0 = time.time()
    while True:
        r = str(sol.check())
        out[r if r in ("sat", "unsat") else "unknown"] += 1
        if r != "sat":
            break
        mdl = sol.model()
        sent = [mdl.eval(t, model_completion=True).as_long() for t in toks]
        sol.add(z3.Or([toks[i] != sent[i] for i in range(len(pre), len(pre) + k)]))
        out["count"] += 1
        ok, errs = lg.real_parse_tokens(sent[:-1])
        if not ok and len(out["bad"]) < 3:
            out["bad"].append((sent, cfg.concrete_derives(NA, start, sent)))
        # the other direction on the neighbours of the sentence: a single-token substitution inside the window that the
        # grammar rejects must be rejected by the generated code too (a deterministic 1/R slice of all substitutions)
        R = 64 if tier == "quick" else 4
        for pos in range(len(pre), len(pre) + k):
            for a in alphabet:
                if a == sent[pos] or (out["count"] * 31 + pos * 7 + a) % R:
                    continue
                mt = list(sent)
                mt[pos] = a
                if cfg.concrete_derives(NG, start, mt):
                    continue
                out["mutants"] = out.get("mutants", 0) + 1
                ok2, _ = lg.real_parse_tokens(mt[:-1])
                if ok2 and len(out["bad"]) < 3:
                    out["bad"].append((mt, "accepted-but-ungrammatical"))
    out["dt"] = time.time() - t0
    out["complete"] = r == "unsat"
    return out


def allsat_decisions(rep, lg, tier):
    """O2v: the generated parser *code* against the grammar on ALL sentences of a region, enumerated by the solver (AllSAT with
    blocking clauses on the CFG encoding of blackbird.g4): a fixed context, a free window of up to k tokens over a small
    alphabet (one representative per token class).  The windows sit where the grammar needs more than one token of
    lookahead - optional brackets in front of an expression list - which is where hand-edited or LL(1)-simplified parser code
    goes wrong.  Every enumerated sentence is parsed by the real generated code (and, if rejected, by the shipped automaton)."""
    regions = _allsat_regions(lg, tier)
    jobs = [(ri, k, tier) for ri, (_, _, _, (kmin, kmax), _) in enumerate(regions) for k in range(kmin, kmax + 1)]
    jobs.sort(key=lambda j: -j[1])
    total = 0
    nmut = 0
    bad = []
    for res in common.pmap(_allsat_job, jobs):
        for q in ("sat", "unsat", "unknown"):
            for _ in range(res[q]):
                rep.q[q] += 1
        rep.solver_s += res["dt"]
        total += res["count"]
        rep.evaluations += 1
        rep.distinct.add(("allsat", res["label"], res["k"]))
        verdict = "violated" if res["bad"] else ("holds" if res["complete"] else "inconclusive")
        rep.obligation("O2v %s: all %d grammar sentences with a free window of %d tokens over %d token classes are accepted by the generated parser code"
                       % (res["label"], res["count"], res["k"], res["classes"]), verdict)
        bad += [(res["label"], s_, e_) for (s_, e_) in res["bad"]]
        nmut += res.get("mutants", 0)
    rep.validated += total + nmut
    rep.extra["allsat_sentences_parsed_by_generated_code"] = total
    rep.extra["allsat_ungrammatical_neighbours_parsed_by_generated_code"] = nmut
    for (label, sent, enc_a) in bad[:3]:
        if enc_a == "accepted-but-ungrammatical":
            rep.violation("O2v:accepts:%s" % label, "the generated parser code accepts a token sequence that blackbird.g4 rejects (%s): %r" % (label, _symnames(lg, sent)),
                          _replay_src("parse", {"tag": "python", "root": "start", "w": sent}), "o2v_%d" % len(rep.violations))
            continue
        rep.violation("O2v:%s" % label, "the generated parser code rejects a sentence of blackbird.g4 (%s; the shipped automaton %s it): %r"
                      % (label, "accepts" if enc_a else "also rejects", _symnames(lg, sent)),
                      _replay_src("parse", {"tag": "python", "root": "start", "w": sent}), "o2v_%d" % len(rep.violations))


def probe_code_points(rep, lg):
    """O1c: the real lexer *code* (blackbirdLexer.py around the automaton: constructor, input handling) on special code
    points at the start and inside a script, against the tokenisation blackbird.g4 prescribes (concrete probes)"""
    cps = [0xFEFF, 0xFFFE, 0x200B, 0x200E, 0x00A0, 0x0085, 0x2028, 0x2029, 0x0000, 0x0001, 0x001A, 0x007F, 0x0080, 0x00E9, 0x03C0, 0x2212, 0xFF10, 0xD7FF, 0xE000,
           0xFFFD, 0xFFFF, 0x10000, 0x1F600, 0x10FFFF]
    bad = []
    n = 0
    for cp in cps:
        c = chr(cp)
        for s in (c + "name prog", c, c + c, "name" + c + "prog", "name prog\nversion 1.0" + c, "# note" + c + "\nname x", "\"a" + c + "b\"", c + "\n" + c + "name x", "1" + c + "2", "q" + c + "0"):
            n += 1
            try:
                real = _real_stream(lg, s)
            except Exception as e:  # noqa
                bad.append((s, "real lexer raises %s" % type(e).__name__))
                continue
            want = [(t, x) for (t, x) in lg.tokenize("G", s)]
            if real != want:
                bad.append((s, "real lexer gives %r, blackbird.g4 prescribes %r" % (_names(lg, real), _names(lg, want))))
    rep.validated += n
    rep.obligation("O1c real lexer on %d strings with special code points (byte-order mark, zero-width, separators, controls, astral) == blackbird.g4" % n,
                   "holds" if not bad else "violated")
    for s, what in bad[:2]:
        rep.violation("O1c:%s" % "U+%04X" % ord(s[0]), "string %r: %s" % (s, what), _replay_src("lex", {"tag": "python", "s": s}), "o1c_%d" % len(rep.violations))


def validate_corpus(rep, lg):
    """the repo's own scripts through real lexer vs both concrete tokenisers, and real parser vs CFG encoding"""
    import glob
    import re
    texts = []
    for f in sorted(glob.glob(os.path.join(common.REPO, "examples", "*.xbb"))):
        texts.append(open(f).read())
    for f in sorted(glob.glob(os.path.join(atns.PYDIR, "tests", "*.py"))):
        src = open(f).read()
        for m in re.finditer(r'"""(.*?)"""', src, re.S):
            body = m.group(1)
            if "name " in body and "version" in body and "{}" not in body and "{" + "0" + "}" not in body:
                import textwrap
                texts.append(textwrap.dedent(body.replace("\\\n", "")))
    bad = []
    n = 0
    for t in texts:
        real = [(ty, x) for (ty, x) in lg.real_tokens(t)]
        skip = lg.skip_token_types()
        for side in ("G", "A"):
            enc = [(ty, x) for (ty, x) in lg.tokenize(side, t) if ty not in skip]
            n += 1
            if enc != real and (side == "A" or not rep.violations):
                bad.append((t[:40], side))
    rep.validated += n
    rep.extra["corpus_scripts_tokenised"] = len(texts)
    if bad:
        raise common.HarnessError("concrete tokeniser disagrees with the real lexer on corpus: %r" % bad[:3])


# --------------------------------------------------------------------------- replay
HIST_SRC = r"""
import sys, json
sys.path.insert(0, %(root)r)
from bbverif.atnsmt import lang as langmod
lg = langmod.Lang()
out = []
for w in %(seqs)r:
    out.append(bool(lg.real_parse_tokens(w[:-1])[0]))
print(json.dumps(out))
"""


def _verdicts_in_fresh_process(seqs):
    import json
    import subprocess
    p = subprocess.run([common.PY, "-W", "ignore", "-c", HIST_SRC % {"root": common.ROOT, "seqs": seqs}], capture_output=True, text=True, timeout=300)
    lines = [l for l in p.stdout.strip().split("\n") if l.startswith("[")]
    return json.loads(lines[-1]) if lines else None


def _history_dependence(lg, previous, c, want):
    """None, or a shortest-found list of earlier token sequences after which a fresh process gives the wrong verdict on c while it gives
    the prescribed one on c alone"""
    alone = _verdicts_in_fresh_process([list(c)])
    if alone is None or alone[0] != want:
        return None
    for hist in ([previous[-1]] if previous else []) + ([previous[-3:]] if len(previous) > 1 else []) + [previous]:
        hist = [list(h) for h in (hist if hist and isinstance(hist[0], list) else [hist])]
        v = _verdicts_in_fresh_process(hist + [list(c)])
        if v is not None and v[-1] != want:
            return hist
    return None


def _replay_src(kind, data):
    return (
        "#!/usr/bin/env python\n"
        "# replay of a C14 finding: re-derives the expectation from src/blackbird.g4 and compares with the shipped artefact\n"
        "import sys; sys.path.insert(0, %r)\n"
        "from bbverif.checks import c14\n"
        "sys.exit(c14.replay(%r, %r))\n" % (common.ROOT, kind, data)
    )


def replay(kind, data):
    lg = langmod.Lang()
    if kind == "lex":
        s = data["s"]
        if data["tag"] == "python":
            real = _real_stream(lg, s)
        else:
            real = lg.tokenize("A", s)
        want = lg.tokenize("G", s)
        print("string   :", repr(s))
        print("shipped  :", _names(lg, real))
        print("grammar  :", _names(lg, want))
        return 1 if real != want else 0
    if kind == "parse_history":
        w = data["w"]
        g = cfg.concrete_derives(lg.parser_G(), lg.rule_ids["start"], w)
        alone = _verdicts_in_fresh_process([w])[0]
        after = _verdicts_in_fresh_process(data["history"] + [w])[-1]
        print("tokens   :", _symnames(lg, w))
        print("grammar derives:", g, " parser alone accepts:", alone, " parser after", [_symnames(lg, h) for h in data["history"]], "accepts:", after)
        return 1 if (after != g or alone != g) else 0
    if kind == "parse":
        w = data["w"]
        root = data["root"]
        g = cfg.concrete_derives(lg.parser_G(), lg.rule_ids[root], w)
        if data["tag"] == "python" and root == "start":
            a, errs = lg.real_parse_tokens(w[:-1])
        else:
            a = cfg.concrete_derives(lg.parser_A(), lg.rule_ids[root], w)
        print("tokens   :", _symnames(lg, w))
        print("shipped accepts:", a, " grammar derives:", g)
        return 1 if a != g else 0
    # identity-type findings: rerun O0
    rep = common.Report(PID, "translation_validation", clear_replays=False)
    rep.known = []
    o0_identity(rep, lg)
    o2_precedence(rep, lg)
    for v in rep.violations:
        print(v["what"])
    return 1 if rep.violations else 0


# --------------------------------------------------------------------------- main
def main():
    t = common.tier()
    b = BOUNDS[t]
    rep = common.Report(PID, "translation_validation")
    rep.bounds = dict(b)
    rep.rule = ("one case = one solver query (a lexer rule, a parser rule RHS, a CFG root x sentence length) or one "
                "artefact comparison; distinct = distinct (obligation kind, rule/length) pairs")
    rep.assumptions = [
        "antlr4 runtime interprets an ATN as the ATN's language (longest match / first rule; ALL(*) accepts L(ATN))",
        "precedence predicates do not change the accepted language (treated as epsilon in language queries)",
        "g4 subset reader (bbverif/atnsmt/g4.py) reads blackbird.g4 as ANTLR does; validated on solver witnesses and the repo corpus",
        "bounds: lexer strings <= M code points (21-bit), RHS strings <= K symbols, token sequences <= N; beyond: not claimed",
        "C++ runtime behaviour is not exercised: only the automaton embedded in the C++ sources is compared and analysed",
    ]
    rep.functions.update(["blackbirdLexer.atn (serialized ATN, all 65 rules)", "blackbirdParser.atn (serialized ATN, all 35 rules)",
                          "src/blackbird.g4 (parser + lexer rules)", "blackbird_cpp/blackbird{Lexer,Parser}.cpp serializedATNSegment0",
                          "*.interp atn sections", "*.tokens"])
    rnd = random.Random(common.seed())
    try:
        lg = langmod.Lang()
        distinct = o0_identity(rep, lg)
        o1_lexer(rep, lg, b["M"])
        diff = o2_rhs(rep, lg, b["K"])
        for (ri, name, w) in diff:
            rep.sample({"rhs_differs": name, "witness": _symnames(lg, w),
                        "note": "expected for a left-recursive rule (ANTLR rewrite); decided at CFG level instead"})
        nonexpr = [d for d in diff if d[1] != "expression"]
        # rules whose RHS differs are decided at CFG level from that rule
        o2_cfg(rep, lg, "expression", b["N_expr"], exact_from=(b["N_expr"] - 2 if t == "thorough" else None))
        for (ri, name, w) in nonexpr:
            o2_cfg(rep, lg, name, b["N_start"])
        o2_cfg(rep, lg, "start", b["N_start"], exact_from=(b["N_start"] - 3 if t == "thorough" else None))
        o2_precedence(rep, lg)
        validate_corpus(rep, lg)
        validate_parser(rep, lg, b["N_start"], 40 if t == "quick" else 200, rnd)
        validate_generated_code(rep, lg, 60 if t == "quick" else 400, rnd, 300 if t == "quick" else 3000)
        allsat_decisions(rep, lg, t)
        probe_code_points(rep, lg)
        # every distinct non-python automaton gets its own language check (witness for the difference)
        for kind in ("lexer", "parser"):
            seen = []
            for label, ints in distinct[kind]:
                if ints in seen:
                    continue
                seen.append(ints)
                try:
                    atn = atns.deserialize(ints)
                except Exception as e:  # noqa
                    rep.obligation("O1/O2 language of %s" % label, "violated", why="cannot be deserialized: %r" % (e,))
                    continue
                if kind == "lexer":
                    lg2 = langmod.Lang(lexer_atn=atn)
                    o1_lexer(rep, lg2, b["M"], tag=label)
                else:
                    lg2 = langmod.Lang(parser_atn=atn)
                    o2_cfg(rep, lg2, "start", b["N_start"], tag=label, ints=ints)
                    o2_cfg(rep, lg2, "expression", b["N_expr"], tag=label, ints=ints)
        rep.extra["programs"] = len(rep.obligations)
        rep.extra["disagreements_checked"] = len(rep.violations) + len(rep.unconfirmed) + len(rep.known_hits)
    except common.HarnessError as e:
        print("HARNESS ERROR:", e)
        rep.obligation("harness", "inconclusive", why=str(e))
        rc = rep.finish()
        return 1 if rep.violations else 2      # replayed violations found before the harness gave up are still violations
    return rep.finish()


if __name__ == "__main__":
    sys.exit(main())
