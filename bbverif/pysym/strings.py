"""Symbolic strings for the code that only compares, searches and formats them (error.py).

SStr carries a z3 String term.  `in` / `==` / `startswith` are z3 sequence operations; hash() forks over a given
set of string constants (the literals that occur in the module under test), which makes membership in literal sets
exact; str()/format() give a placeholder that is registered so that the final text can be related to the term.
"""
import z3

from .engine import cur, Abort, Engine
from .proxies import SBool

PLACEHOLDERS = {}


def reset():
    PLACEHOLDERS.clear()


class SStr:
    __slots__ = ("t", "consts", "label")

    def __init__(self, term, consts=(), label=None):
        self.t = term
        self.consts = tuple(consts)
        self.label = label or str(term)

    @property
    def __class__(self):
        return str

    def _other(self, o):
        if type(o) is SStr:
            return o.t
        if isinstance(o, str):
            return z3.StringVal(o)
        return None

    def __eq__(self, o):
        ot = self._other(o)
        if ot is None:
            return False
        return SBool(self.t == ot)

    def __ne__(self, o):
        ot = self._other(o)
        if ot is None:
            return True
        return SBool(self.t != ot)

    def __hash__(self):
        e = cur()
        for c in self.consts:
            if e.branch(self.t == z3.StringVal(c)):
                return hash(c)
        return hash(("<other string>", self.label))

    def __contains__(self, sub):
        ot = self._other(sub)
        if ot is None:
            raise TypeError("'in <string>' requires string as left operand")
        return bool(SBool(z3.Contains(self.t, ot)))

    def startswith(self, p):
        return SBool(z3.PrefixOf(self._other(p), self.t))

    def endswith(self, p):
        return SBool(z3.SuffixOf(self._other(p), self.t))

    def __len__(self):
        raise Abort("len() of a symbolic string")

    def __str__(self):
        ph = "⟦%s⟧" % self.label
        PLACEHOLDERS[ph] = self.t
        return ph

    __repr__ = __str__

    def __format__(self, spec):
        return str(self)

    def __add__(self, o):
        return SStr(z3.Concat(self.t, self._other(o)), self.consts, self.label + "+")

    def __radd__(self, o):
        return SStr(z3.Concat(self._other(o), self.t), self.consts, "+" + self.label)

    def __deepcopy__(self, memo):
        return self
