"""Path exploration: DFS over branch decisions by re-execution with a recorded prefix.

`branch(cond)` is called by proxies whenever the real code needs a concrete truth value
of a symbolic boolean.  Both sides are checked for feasibility under the current path
condition (one solver, push/pop); if both are feasible the engine follows one and queues
the other.  Solver budgets are rlimits, never wall-clock.
"""
import time
import z3

from . import terms as T


class Abort(BaseException):
    """the current path cannot be continued symbolically (inconclusive), e.g. a proxy was asked
    for a concrete machine value, or the solver answered unknown"""


class PathLimit(BaseException):
    pass


class Path:
    __slots__ = ("pc", "decisions", "kind", "value", "notes")

    def __init__(self, pc, decisions, kind, value, notes):
        self.pc = pc
        self.decisions = decisions
        self.kind = kind      # 'ok' | 'exc' | 'abort'
        self.value = value
        self.notes = notes


class Engine:
    current = None

    def __init__(self, rlimit=8_000_000, max_paths=4000, timeout_ms=8000, cache=None):
        self.cache = cache          # optional dict shared by engines of one process: (path condition, condition) -> verdict
        self.s = z3.Solver()
        self.s.set("rlimit", rlimit)
        self.s.set("timeout", timeout_ms)   # backstop only: an expired budget is `unknown` = inconclusive, never a pass
        for ax in T.PI_AXIOMS:
            self.s.add(ax)
        self.max_paths = max_paths
        self.stats = {"sat": 0, "unsat": 0, "unknown": 0, "solver_s": 0.0, "paths": 0, "branches": 0}
        self.base = []
        self.pc = []
        self.trace = []
        self.prefix = []
        self.work = []
        self.notes = []
        self.nfresh = 0
        self.reset_hooks = []

    # ---- solver access
    def check(self, *assumptions):
        t0 = time.time()
        r = self.s.check(*assumptions)
        self.stats["solver_s"] += time.time() - t0
        self.stats[str(r)] = self.stats.get(str(r), 0) + 1
        return str(r)

    def _cached_check(self, c):
        if self.cache is None:
            return self.check(c)
        key = (tuple(x.sexpr() for x in self.pc), c.sexpr())
        if key not in self.cache:
            self.cache[key] = self.check(c)
        return self.cache[key]

    def assume(self, cond):
        """add a precondition to the current path (e.g. validity domain)"""
        self.pc.append(cond)
        self.s.add(cond)

    def fresh(self, name, sort):
        self.nfresh += 1
        return z3.Const("%s!%d" % (name, self.nfresh), sort)

    # ---- branching
    def branch(self, cond):
        if isinstance(cond, bool):
            return cond
        c = z3.simplify(cond)
        if z3.is_true(c):
            return True
        if z3.is_false(c):
            return False
        i = len(self.trace)
        self.stats["branches"] += 1
        if i < len(self.prefix):
            d = self.prefix[i]
        else:
            rt = self._cached_check(c)
            if rt == "unknown":
                raise Abort("solver unknown on branch condition")
            if rt == "unsat":
                d = False
            else:
                rf = self._cached_check(z3.Not(c))
                if rf == "unknown":
                    raise Abort("solver unknown on branch condition")
                if rf == "unsat":
                    d = True
                else:
                    d = True
                    self.work.append(self.trace + [False])
        self.trace.append(d)
        lit = c if d else z3.Not(c)
        self.pc.append(lit)
        self.s.add(lit)
        return d

    def concretize(self, term, limit=16):
        """fork over the concrete integer values a term can take on this path (bounded)"""
        t = z3.simplify(term)
        if z3.is_int_value(t):
            return t.as_long()
        tried = []
        for _ in range(limit):
            r = self.check()
            if r != "sat":
                raise Abort("concretize: solver %s" % r)
            v = self.s.model().eval(t, model_completion=True)
            v = z3.simplify(v)
            if not z3.is_int_value(v):
                raise Abort("concretize: non-integer model value")
            k = v.as_long()
            if self.branch(t == k):
                return k
            tried.append(k)
        raise Abort("concretize: more than %d values" % limit)

    def note(self, *a):
        self.notes.append(a)

    # ---- exploration
    def explore(self, fn):
        """run fn() on every feasible path; returns list of Path"""
        results = []
        self.work = [[]]
        Engine.current = self
        try:
            while self.work:
                if len(results) >= self.max_paths:
                    raise PathLimit("more than %d paths" % self.max_paths)
                self.prefix = self.work.pop()
                self.trace = []
                self.pc = []
                self.notes = []
                self.s.push()
                for h in self.reset_hooks:
                    h()
                try:
                    for b in self.base:
                        self.assume(b)
                    try:
                        val = fn()
                        kind = "ok"
                    except Abort as e:
                        kind, val = "abort", e
                    except Exception as e:  # noqa: the code under test may raise anything
                        kind, val = "exc", e
                    results.append(Path(list(self.pc), list(self.trace), kind, val, list(self.notes)))
                finally:
                    self.s.pop()
                self.stats["paths"] += 1
        finally:
            Engine.current = None
            for h in self.reset_hooks:
                h()
        return results

    @staticmethod
    def specialize(path, expr):
        """substitute the equalities `constant symbol == numeral` of the path condition into expr
        (sound: they hold on this path); keeps nonlinear queries small after index forks"""
        pairs = []
        for c in path.pc:
            if z3.is_eq(c):
                a, b = c.arg(0), c.arg(1)
                if z3.is_const(b) and b.decl().kind() == z3.Z3_OP_UNINTERPRETED and (z3.is_int_value(a) or z3.is_rational_value(a)):
                    a, b = b, a
                if z3.is_const(a) and a.decl().kind() == z3.Z3_OP_UNINTERPRETED and (z3.is_int_value(b) or z3.is_rational_value(b)):
                    pairs.append((a, b))
        if not pairs:
            return expr
        return z3.simplify(z3.substitute(expr, *pairs))

    # ---- queries on a finished path
    def query(self, path, cond, extra=()):
        """is cond satisfiable together with the path condition? returns ('sat', model) / ('unsat', None) / ('unknown', None)"""
        self.s.push()
        try:
            for c in path.pc:
                self.s.add(c)
            for c in extra:
                self.s.add(c)
            self.s.add(cond)
            r = self.check()
            if r == "sat":
                return r, self.s.model()
            return r, None
        finally:
            self.s.pop()


def cur():
    e = Engine.current
    if e is None:
        raise Abort("proxy used outside an exploration")
    return e
