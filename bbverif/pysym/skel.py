"""Skeleton leaves: one generator renders a script either *symbolically* (placeholder lexemes
bound to fresh z3 variables) or *concretely* (ordinary literals from a value list), so that a
solver model can be replayed through exactly the same text shape."""
import z3

from . import terms as T
from . import proxies as P


class Leaves:
    def __init__(self, values=None):
        """values None -> symbolic mode; else list of concrete numbers consumed in allocation order"""
        self.symbolic = values is None
        self.values = list(values) if values is not None else None
        self.vars = []          # (name, kind, z3 const)
        self.cons = []          # z3 constraints (magnitudes >= 0 ...)
        self.n = 0
        self.concrete = {}      # lexeme -> python value (concrete mode)
        if self.symbolic:
            self.reg = P.reset_registry()

    def _next(self, kind):
        i = self.n
        self.n += 1
        if self.symbolic:
            name = "%s%d" % ({"int": "n", "float": "x"}[kind], i)
            var = z3.Int(name) if kind == "int" else z3.Real(name)
            self.vars.append((name, kind, var))
            self.cons.append(var >= 0)
            return var
        return self.values[i]

    def int(self):
        """lexeme of an INT literal (non-negative)"""
        v = self._next("int")
        if self.symbolic:
            return self.reg.lexeme(T.V("int", v), "int")
        v = int(v)
        assert v >= 0
        tx = str(v)
        self.concrete[tx] = v
        return tx

    def float(self):
        """lexeme of a FLOAT literal (non-negative)"""
        v = self._next("float")
        if self.symbolic:
            return self.reg.lexeme(T.V("float", v), "float")
        v = float(v)
        assert v >= 0
        tx = repr(v)
        if "e" not in tx and "." not in tx:
            tx += ".0"
        self.concrete[tx] = v
        return tx

    def complex(self, form="a+bj"):
        """lexeme of a COMPLEX literal: forms 'bj', 'a+bj', 'a-bj', '-bj', '-a+bj', '-a-bj'"""
        neg0 = form.startswith("-")
        f = form[1:] if neg0 else form
        if f == "bj":
            b = self.float()
            return ("-" if neg0 else "") + b + "j"
        a = self.float()
        b = self.float()
        return ("-" if neg0 else "") + a + f[1] + b + "j"

    # -- value lookup for the reference
    def leaf(self, kind, text):
        """reference-side value of an unsigned numeric lexeme"""
        if self.symbolic:
            v = self.reg.lookup(text)
            if v is not None:
                if kind == "float" and v.kind == "int":
                    return T.V("float", T.to_real(v.re))
                return v
            return T.const(int(text) if kind == "int" else float(text))
        return int(text) if kind == "int" else float(text)

    def model_values(self, mdl):
        out = []
        for (name, kind, var) in self.vars:
            v = mdl.eval(var, model_completion=True)
            if kind == "int":
                out.append(z3.simplify(v).as_long())
            else:
                out.append(T._ratf(v))
        return out
