"""Proxy values carrying z3 terms, on which the unmodified blackbird code is executed.

SNum   number proxy: V term + concrete type *tag* (int, float, complex, np.int64, np.float64, ...),
       exposed through __class__ so the real isinstance() checks see the real type.
SBool  symbolic truth value; bool() asks the engine to branch.
Text forms (str/repr/format) are placeholder lexemes registered in a registry, shaped like
what the real type prints (learned from the real type on an exemplar at run time).
"""
import operator
import re as _re

import numpy as np
import z3
from sympy.core.sympify import CantSympify

from . import terms as T
from .engine import Abort, cur

_real_int, _real_float, _real_complex, _real_bool, _real_str = int, float, complex, bool, str

INT_TAGS = (int, np.int64, np.int32, np.int16, np.int8, np.uint8, np.intp)
KIND_OF = {}
for _t in (int, np.int64, np.int32, np.int16, np.int8, np.uint8, np.uint16, np.uint32, np.uint64):
    KIND_OF[_t] = "int"
for _t in (float, np.float64, np.float32, np.float16):
    KIND_OF[_t] = "float"
for _t in (complex, np.complex128, np.complex64):
    KIND_OF[_t] = "complex"
for _t in (bool, np.bool_):
    KIND_OF[_t] = "bool"

EXEMPLAR = {"int": 7, "float": 7.5, "complex": 7.5 + 3.5j, "bool": True}


def exemplar(tag, alt=None):
    k = KIND_OF[tag]
    v = EXEMPLAR[k] if alt is None else alt
    return tag(v)


# ---------------------------------------------------------------- registry of placeholder lexemes
class Registry:
    """placeholder lexeme <-> V term.  Lexemes are digit strings unlikely to occur otherwise."""

    def __init__(self):
        self.by_text = {}
        self.by_key = {}
        self.n = 0

    def lexeme(self, v, kind):
        """kind 'int' -> '9000001'; 'float' -> '9000001.5' (non-negative magnitudes)"""
        key = (kind, v.re.get_id())
        if key in self.by_key:
            return self.by_key[key]
        self.n += 1
        text = "9%06d" % self.n if kind == "int" else "9%06d.5" % self.n
        self.by_text[text] = v
        self.by_key[key] = text
        return text

    def lookup(self, text):
        return self.by_text.get(text)


REG = Registry()


def reset_registry():
    global REG
    REG = Registry()
    return REG


# ---------------------------------------------------------------- SBool
class SBool(CantSympify):
    __slots__ = ("t",)

    def __init__(self, t):
        self.t = t

    def __bool__(self):
        return cur().branch(self.t)

    def __invert__(self):
        return SBool(z3.Not(self.t))

    def __and__(self, o):
        return SBool(z3.And(self.t, _bterm(o)))

    __rand__ = __and__

    def __or__(self, o):
        return SBool(z3.Or(self.t, _bterm(o)))

    __ror__ = __or__

    def __eq__(self, o):
        return SBool(self.t == _bterm(o))

    def __ne__(self, o):
        return SBool(self.t != _bterm(o))

    def __hash__(self):
        return 0

    def __index__(self):
        return 1 if bool(self) else 0

    __int__ = __index__

    def __deepcopy__(self, memo):
        return self

    def __copy__(self):
        return self

    def all(self, *a, **k):
        return self

    def any(self, *a, **k):
        return self

    def __repr__(self):
        from .engine import Engine
        if Engine.current is None:
            return "<symbolic bool>"
        return "True" if bool(self) else "False"

    __str__ = __repr__

    def __format__(self, spec):
        if spec == "d":
            return "1" if bool(self) else "0"
        return repr(self)

    @property
    def __class__(self):
        return bool


def _bterm(o):
    if isinstance(o, SBool):
        return o.t
    if type(o) in (bool, np.bool_):
        return z3.BoolVal(bool(o))
    raise Abort("boolean operation with %r" % type(o))


# ---------------------------------------------------------------- SNum
def is_proxy(x):
    return type(x) in (SNum, SBool)


def as_v(x):
    if type(x) is SNum:
        return x.v
    if type(x) is SBool:
        return T.V("int", z3.If(x.t, z3.IntVal(1), z3.IntVal(0)))
    return T.const(x)


def tag_of(x):
    if type(x) is SNum:
        return x.tag
    if type(x) is SBool:
        return bool
    return type(x)


def is_number(x):
    return type(x) in (SNum, SBool) or isinstance(x, (int, float, complex, np.number, np.bool_))


def _ex(x):
    """a typed exemplar standing for x in calls of the real library (to learn result type / exception)"""
    if type(x) is SNum:
        return exemplar(x.tag)
    if type(x) is SBool:
        return True
    return x


class SNum(CantSympify):
    __slots__ = ("v", "tag")

    def __init__(self, v, tag):
        assert KIND_OF[tag] == v.kind or (KIND_OF[tag] == "bool" and v.kind == "int"), (tag, v.kind)
        self.v = v
        self.tag = tag

    @property
    def __class__(self):
        return self.tag

    # -- no concretisation, ever
    def _no(self, what):
        raise Abort("concretisation of a proxy via %s" % what)

    def __float__(self):
        self._no("__float__")

    def __complex__(self):
        self._no("__complex__")

    def __int__(self):
        self._no("__int__")

    def __index__(self):
        if self.v.kind not in ("int", "bool"):
            raise TypeError("'%s' object cannot be interpreted as an integer" % self.tag.__name__)
        return cur().concretize(self.v.re)

    def __bool__(self):
        v = self.v
        if v.kind == "complex":
            return cur().branch(z3.Or(v.re != 0, v.im != 0))
        return cur().branch(v.re != 0)

    def __hash__(self):
        return 0

    def __deepcopy__(self, memo):
        return self

    def __copy__(self):
        return self

    def __reduce__(self):
        raise Abort("pickling a proxy")

    # -- arithmetic: result tag learned from the real types on exemplars
    def _bin(self, other, op, top, swap=False):
        if not is_number(other):
            if STANDINS["on"]:
                import sympy
                if isinstance(other, sympy.Basic):
                    # SymPy boundary (C17): the proxy enters the expression as a stand-in symbol
                    a, b = (other, standin(self)) if swap else (standin(self), other)
                    return op(a, b)
            return NotImplemented
        a, b = (other, self) if swap else (self, other)
        try:
            rt = type(op(_ex(a), _ex(b)))
        except TypeError:
            return NotImplemented
        if rt not in KIND_OF:
            raise Abort("result type %r" % rt)
        r = top(as_v(a), as_v(b))
        return SNum(_fit(r, KIND_OF[rt]), rt)

    def __add__(self, o):
        return self._bin(o, operator.add, T.add)

    def __radd__(self, o):
        return self._bin(o, operator.add, T.add, True)

    def __sub__(self, o):
        return self._bin(o, operator.sub, T.sub)

    def __rsub__(self, o):
        return self._bin(o, operator.sub, T.sub, True)

    def __mul__(self, o):
        return self._bin(o, operator.mul, T.mul)

    def __rmul__(self, o):
        return self._bin(o, operator.mul, T.mul, True)

    def __truediv__(self, o):
        return self._bin(o, operator.truediv, T.div)

    def __rtruediv__(self, o):
        return self._bin(o, operator.truediv, T.div, True)

    def __pow__(self, o, mod=None):
        return _power(self, o)

    def __rpow__(self, o):
        return _power(o, self)

    def __neg__(self):
        rt = type(-exemplar(self.tag))
        return SNum(_fit(T.neg(self.v), KIND_OF[rt]), rt)

    def __pos__(self):
        rt = type(+exemplar(self.tag))
        return SNum(self.v, rt)

    def __abs__(self):
        rt = type(abs(exemplar(self.tag)))
        return SNum(_fit(T.vabs(self.v), KIND_OF[rt]), rt)

    # -- comparisons
    def _cmp(self, o, f):
        if not is_number(o):
            return NotImplemented
        a, b = self.v, as_v(o)
        if a.kind == "complex" or b.kind == "complex":
            raise TypeError("'<' not supported between instances of 'complex' and 'complex'")
        return SBool(f(T.to_real(a.re), T.to_real(b.re)) if "float" in (a.kind, b.kind) else f(a.re, b.re))

    def __lt__(self, o):
        return self._cmp(o, operator.lt)

    def __le__(self, o):
        return self._cmp(o, operator.le)

    def __gt__(self, o):
        return self._cmp(o, operator.gt)

    def __ge__(self, o):
        return self._cmp(o, operator.ge)

    def _np_mixed(self, o):
        """a float compared with a *NumPy* integer: NumPy converts the integer to a double first (Python compares exactly)"""
        a, b = self.v, as_v(o)
        import numpy as _np
        ta, tb = tag_of(self), (tag_of(o) if is_proxy(o) else type(o))
        if a.kind == "float" and b.kind == "int" and isinstance(tb, type) and issubclass(tb, _np.integer):
            b = T.V("float", T.to_f64(b.re))
        elif b.kind == "float" and a.kind == "int" and isinstance(ta, type) and issubclass(ta, _np.integer):
            a = T.V("float", T.to_f64(a.re))
        return a, b

    def __eq__(self, o):
        if not is_number(o):
            return False
        return SBool(T.eq(*self._np_mixed(o)))

    def __ne__(self, o):
        if not is_number(o):
            return True
        return SBool(z3.Not(T.eq(*self._np_mixed(o))))

    # -- attributes the real code reads
    @property
    def real(self):
        if self.v.kind == "complex":
            rt = type(exemplar(self.tag).real)
            return SNum(T.V("float", self.v.re), rt)
        return self

    @property
    def imag(self):
        if self.v.kind == "complex":
            rt = type(exemplar(self.tag).imag)
            return SNum(T.V("float", self.v.im), rt)
        rt = type(exemplar(self.tag).imag)
        return rt(0)

    def conjugate(self):
        if self.v.kind == "complex":
            return SNum(T.V("complex", self.v.re, -self.v.im), self.tag)
        return self

    def item(self):
        rt = type(exemplar(self.tag).item()) if hasattr(exemplar(self.tag), "item") else self.tag
        return SNum(self.v, rt)

    @property
    def dtype(self):
        return np.dtype(self.tag)

    @property
    def shape(self):
        return ()

    @property
    def ndim(self):
        return 0

    # -- text forms: placeholder lexemes shaped like the real type's output
    def _text(self, how):
        return _text_of(self, how)

    def __str__(self):
        return self._text("str")

    def __repr__(self):
        return self._text("repr")

    def __format__(self, spec):
        if spec == "d":
            if self.v.kind in ("int", "bool"):
                return self._text("str").replace("np.int64(", "").rstrip(")") if False else _text_of(SNum(self.v, int), "str")
            raise ValueError("Unknown format code 'd' for object of type '%s'" % self.tag.__name__)
        if spec:
            raise Abort("format spec %r on a proxy" % spec)
        return self._text("format")


STANDINS = {"on": False, "map": {}, "n": 0}


def standin(x):
    """a SymPy symbol standing for proxy x inside SymPy expressions (solve); mapped back by from_sympy"""
    import sympy
    for sym, px in STANDINS["map"].items():
        if px is x:
            return sym
    STANDINS["n"] += 1
    s = sympy.Symbol("bbvstandin%d" % STANDINS["n"], real=True)
    STANDINS["map"][s] = x
    return s


def from_sympy(expr):
    """value of a SymPy expression over stand-in symbols as a proxy.  Rational coefficients are kept exact
    (the real code lets SymPy evaluate them; floats are reals in this model), so the tree is walked instead of
    running lambdify-generated floating-point code."""
    import sympy

    def ev(e):
        if e.is_Symbol:
            if e not in STANDINS["map"]:
                raise Abort("SymPy expression with a free symbol that is not a stand-in: %s" % e)
            return STANDINS["map"][e]
        if e.is_Integer:
            return SNum(T.V("float", z3.RealVal(int(e))), float)
        if e.is_Rational:
            return SNum(T.V("float", z3.RealVal(int(e.p)) / z3.RealVal(int(e.q))), float)
        if e.is_Float:
            return SNum(T.const(float(e)), float)
        if e.is_Add:
            r = ev(e.args[0])
            for a in e.args[1:]:
                r = r + ev(a)
            return r
        if e.is_Mul:
            r = ev(e.args[0])
            for a in e.args[1:]:
                r = r * ev(a)
            return r
        if e.is_Pow and e.args[1].is_Integer:
            b, n = ev(e.args[0]), int(e.args[1])
            r = SNum(T.V("float", z3.RealVal(1)), float)
            for _ in range(abs(n)):
                r = r * b
            return r if n >= 0 else SNum(T.V("float", z3.RealVal(1)), float) / r
        raise Abort("unsupported SymPy node %s" % type(e).__name__)

    return ev(sympy.sympify(expr))


# numpy calls these methods on object-dtype elements (np.sin(obj) -> obj.sin())
def _mk_method(name):
    def m(self, *a, **k):
        return apply_func(name, self)
    m.__name__ = name
    return m


for _f in T.FUNCS:
    setattr(SNum, _f, _mk_method(_f))


def _fit(v, kind):
    """adapt a term to the kind the real library produced"""
    if kind == v.kind:
        return v
    if kind == "float" and v.kind in ("int", "bool"):
        return T.V("float", T.to_real(v.re))
    if kind == "complex":
        return T.lift(v, "complex")
    if kind == "int" and v.kind == "bool":
        return T.V("int", v.re)
    if kind == "bool" and v.kind == "int":
        return v
    raise Abort("cannot fit %s term into %s result" % (v.kind, kind))


def apply_func(name, x, lib=np):
    """elementary function on a proxy; the result type is what real numpy gives on an exemplar"""
    ex = _ex(x)
    if KIND_OF[type(ex)] == "complex":
        ex = type(ex)(0.5 + 0.25j)
    else:
        ex = type(ex)(0.5) if KIND_OF[type(ex)] == "float" else type(ex)(1)
    with np.errstate(all="ignore"):
        rt = type(getattr(lib, name)(ex))
    if rt not in KIND_OF:
        raise Abort("function result type %r" % rt)
    return SNum(_fit(T.func(name, as_v(x)), KIND_OF[rt]), rt)


def _power(a, b, lib_power=None):
    """a ** b.  lib_power: the real function to consult (operator.pow or numpy.power)"""
    f = lib_power or operator.pow
    ka, kb = KIND_OF.get(tag_of(a)), KIND_OF.get(tag_of(b))
    if ka is None or kb is None:
        return NotImplemented
    exa, exb = _ex(a), _ex(b)
    if ka in ("int", "bool") and kb in ("int", "bool"):
        # value dependent: negative integer exponents
        bv = as_v(b)
        negexp = cur().branch(bv.re < 0)
        exb = type(exb)(-1) if negexp and is_proxy(b) else exb
        if is_proxy(a):
            exa = type(exa)(2)
        res = f(exa, exb)   # may raise exactly what the real library raises
        rt = type(res)
        if KIND_OF.get(rt) == "float":
            # python int ** negative int -> float
            r = T.power(T.lift(as_v(a), "float"), bv)
            return SNum(_fit(r, "float"), rt)
        return SNum(_fit(T.power(as_v(a), bv), KIND_OF[rt]), rt)
    with np.errstate(all="ignore"):
        res = f(exa, exb)
    rt = type(res)
    if rt not in KIND_OF:
        raise Abort("power result type %r" % rt)
    return SNum(_fit(T.power(as_v(a), as_v(b)), KIND_OF[rt]), rt)


# ---------------------------------------------------------------- text forms
_DIG = _re.compile(r"\d+(?:\.\d+)?(?:e[+-]?\d+)?")


def _text_of(x, how):
    """placeholder text for a proxy, learned from the real type's own str/repr/format on an exemplar"""
    from .engine import Engine
    if Engine.current is None:
        # outside an exploration (e.g. an exception message rendered afterwards): a neutral description
        return "<symbolic %s>" % x.tag.__name__
    tag = x.tag
    kind = x.v.kind
    fmt = {"str": str, "repr": repr, "format": lambda e: "{}".format(e)}[how]
    if kind in ("int", "bool"):
        neg = cur().branch(x.v.re < 0)
        ex = tag(-7 if neg else 7)
        shape = fmt(ex)
        mag = T.V("int", -x.v.re if neg else x.v.re)
        lex = REG.lexeme(mag, "int")
        if shape.count("7") != 1:
            raise Abort("unexpected text shape %r" % shape)
        return shape.replace("7", lex)
    if kind == "float":
        neg = cur().branch(x.v.re < 0)
        ex = tag(-7.5 if neg else 7.5)
        shape = fmt(ex)
        mag = T.V("float", -x.v.re if neg else x.v.re)
        lex = REG.lexeme(mag, "float")
        if shape.count("7.5") != 1:
            raise Abort("unexpected text shape %r" % shape)
        return shape.replace("7.5", lex)
    # complex: python prints (a+bj) / (a-bj) / bj
    re_neg = cur().branch(x.v.re < 0)
    im_neg = cur().branch(x.v.im < 0)
    ex = tag(complex(-7.5 if re_neg else 7.5, -3.5 if im_neg else 3.5))
    shape = fmt(ex)
    mre = T.V("float", -x.v.re if re_neg else x.v.re)
    mim = T.V("float", -x.v.im if im_neg else x.v.im)
    if shape.count("7.5") != 1 or shape.count("3.5") != 1:
        raise Abort("unexpected text shape %r" % shape)
    lre, lim = REG.lexeme(mre, "float"), REG.lexeme(mim, "float")
    return _re.sub(r"7\.5|3\.5", lambda m: lre if m.group(0) == "7.5" else lim, shape)   # single pass


# ---------------------------------------------------------------- parsing text that may contain placeholders
_NUM = r"(?:\d+(?:\.\d+)?(?:[eE][+-]?\d+)?)"
_CPLX = _re.compile(r"^\s*([+-])?(?:(" + _NUM + r")([+-]))?(" + _NUM + r")[jJ]\s*$")


def _mag(text, want_kind):
    """V for an unsigned numeric lexeme (placeholder or ordinary literal)"""
    v = REG.lookup(text)
    if v is not None:
        return v, True
    if want_kind == "int":
        return T.const(_real_int(text)), False
    return T.const(_real_float(text)), False


def parse_int(text):
    """what int(text) denotes when text may be a placeholder; None if no placeholder involved"""
    t = text.strip()
    v = REG.lookup(t)
    if v is not None and v.kind == "int":
        return SNum(v, int)
    if v is not None:
        raise ValueError("invalid literal for int() with base 10: %r" % text)
    return None


def parse_float(text):
    t = text.strip()
    sign = 1
    if t[:1] in "+-":
        sign = -1 if t[0] == "-" else 1
        t = t[1:]
    v = REG.lookup(t)
    if v is None:
        return None
    r = T.V("float", T.to_real(v.re))
    return SNum(T.neg(r) if sign < 0 else r, float)


def parse_complex(text):
    m = _CPLX.match(text)
    if not m:
        return None
    s0, a, s1, b = m.groups()
    va = vb = None
    anyp = False
    if a is not None:
        va, p = _mag(a, "float")
        anyp |= p
    vb, p = _mag(b, "float")
    anyp |= p
    if not anyp:
        return None
    vb = T.V("float", T.to_real(vb.re))
    if a is None:
        im = T.neg(vb) if s0 == "-" else vb
        return SNum(T.V("complex", z3.RealVal(0), im.re), complex)
    va = T.V("float", T.to_real(va.re))
    rea = T.neg(va) if s0 == "-" else va
    im = T.neg(vb) if s1 == "-" else vb
    return SNum(T.V("complex", rea.re, im.re), complex)
