"""Number algebra shared by the proxies (implementation side) and the reference semantics.

A symbolic number is V(kind, re, im): kind in 'int' | 'float' | 'complex' | 'bool';
re is a z3 Int (kind int) or Real term, im a z3 Real term (complex only).
Only the *term constructors* are shared between the two sides: which operator is applied
to which operands in which order, and with which result kind, is decided independently by
the real code (through the proxies) and by the reference.

`**` and the elementary functions are uninterpreted (with x**-1 = 1/x, small constant
non-negative integer exponents expanded, x**1 = x): claims about them are claims about
dispatch and operand order, not about numerics.
"""
import math
import cmath
import z3

R = z3.RealSort()
I = z3.IntSort()

FUNCS = ["exp", "log", "sin", "cos", "tan", "arcsin", "arccos", "arctan", "sinh", "cosh", "tanh",
         "arcsinh", "arccosh", "arctanh", "sqrt"]

_uf = {}


def uf(name, *sorts):
    key = (name,) + tuple(str(s) for s in sorts)
    if key not in _uf:
        _uf[key] = z3.Function(name, *sorts)
    return _uf[key]


PI_AXIOMS = []


class V:
    __slots__ = ("kind", "re", "im")

    def __init__(self, kind, re, im=None):
        self.kind = kind
        self.re = re
        self.im = im

    def __repr__(self):
        if self.kind == "complex":
            return "V(complex, %s, %s)" % (z3.simplify(self.re), z3.simplify(self.im))
        return "V(%s, %s)" % (self.kind, z3.simplify(self.re))


def const(x):
    """python / numpy number -> V"""
    import numpy as np
    if isinstance(x, V):
        return x
    if isinstance(x, (bool, np.bool_)):
        return V("int", z3.IntVal(int(x)))
    if isinstance(x, (int, np.integer)):
        return V("int", z3.IntVal(int(x)))
    if isinstance(x, (float, np.floating)):
        return V("float", _realval(float(x)))
    if isinstance(x, (complex, np.complexfloating)):
        return V("complex", _realval(x.real), _realval(x.imag))
    raise TypeError("not a number: %r" % (x,))


def _realval(f):
    if f != f or f in (float("inf"), float("-inf")):
        raise ValueError("non-finite value")
    n, d = f.as_integer_ratio()
    return z3.RealVal(n) / z3.RealVal(d) if d != 1 else z3.RealVal(n)


def to_real(t):
    return z3.ToReal(t) if t.sort() == I else t


ROUNDING = {"on": True}
_2_53 = 2 ** 53


def to_f64(t):
    """an integer *converted* to a double (explicit conversion: declared float type, float array element, float()/np.float64()).
    Exact up to 2**53 in magnitude; beyond that the result is some double f64(t) (uninterpreted: which double is decided by
    the concrete replay).  Implicit lifting inside arithmetic stays exact (floats are reals there, stated assumption)."""
    if t.sort() != I:
        return t
    if not ROUNDING["on"]:
        return z3.ToReal(t)
    ts = z3.simplify(t)
    if z3.is_int_value(ts):
        return z3.ToReal(t) if abs(ts.as_long()) <= _2_53 else z3.RealVal(int(float(ts.as_long())))
    return z3.If(z3.And(t >= -_2_53, t <= _2_53), z3.ToReal(t), uf("f64", I, R)(t))


def rank(kind):
    return {"bool": 0, "int": 0, "float": 1, "complex": 2}[kind]


def join(a, b):
    return a if rank(a) >= rank(b) else b


def lift(v, kind):
    if kind == "complex":
        if v.kind == "complex":
            return v
        return V("complex", to_real(v.re), z3.RealVal(0))
    if kind == "float":
        return V("float", to_real(v.re))
    return v


def add(a, b):
    k = join(a.kind, b.kind)
    if k == "complex":
        a, b = lift(a, k), lift(b, k)
        return V(k, a.re + b.re, a.im + b.im)
    if k == "float":
        return V(k, to_real(a.re) + to_real(b.re))
    return V("int", a.re + b.re)


def neg(a):
    if a.kind == "complex":
        return V("complex", -a.re, -a.im)
    return V(a.kind if a.kind != "bool" else "int", -a.re)


def sub(a, b):
    return add(a, neg(b))


def mul(a, b):
    k = join(a.kind, b.kind)
    if k == "complex":
        a, b = lift(a, k), lift(b, k)
        return V(k, a.re * b.re - a.im * b.im, a.re * b.im + a.im * b.re)
    if k == "float":
        return V(k, to_real(a.re) * to_real(b.re))
    return V("int", a.re * b.re)


def recip(a):
    """1/a as float or complex"""
    if a.kind == "complex":
        d = a.re * a.re + a.im * a.im
        return V("complex", a.re / d, -a.im / d)
    d = to_f64(a.re) if a.re.sort() == I else a.re       # an integer divisor is converted first
    return V("float", z3.RealVal(1) / d)


def div(a, b):
    """true division written as a * (1/b), the form the property describes"""
    return mul(a, recip(b))


def _const_int(t):
    t = z3.simplify(t)
    if z3.is_int_value(t):
        return t.as_long()
    if z3.is_rational_value(t) and t.denominator_as_long() == 1:
        return t.numerator_as_long()
    return None


def power(a, b):
    """a ** b with result kind join(a,b) (int**int stays int)"""
    k = join(a.kind, b.kind)
    if b.kind != "complex":
        c = _const_int(b.re)
        if c is not None and (b.kind == "int" or k != "int"):
            if c == -1 and k != "int":
                r = recip(a)
                return lift(r, k) if k == "complex" else r
            if -4 <= c <= -2 and k != "int":
                r = recip(power(a, V("int", z3.IntVal(-c))))
                return lift(r, k) if k == "complex" else r
            if 0 <= c <= 4:
                if c == 0:
                    one = V("int", z3.IntVal(1))
                    return lift(one, k) if k != "int" else one
                r = a
                for _ in range(c - 1):
                    r = mul(r, a)
                return lift(r, k) if rank(k) > rank(r.kind) else r
    if k == "complex":
        a, b = lift(a, k), lift(b, k)
        fr = uf("cpow_re", R, R, R, R, R)
        fi = uf("cpow_im", R, R, R, R, R)
        return V(k, fr(a.re, a.im, b.re, b.im), fi(a.re, a.im, b.re, b.im))
    if k == "float":
        return V(k, uf("pow_r", R, R, R)(to_real(a.re), to_real(b.re)))
    return V("int", uf("pow_i", I, I, I)(a.re, b.re))


def func(name, a):
    """elementary function: int/float -> float, complex -> complex"""
    if a.kind == "complex":
        return V("complex", uf("c" + name + "_re", R, R, R)(a.re, a.im), uf("c" + name + "_im", R, R, R)(a.re, a.im))
    return V("float", uf("f_" + name, R, R)(to_real(a.re)))


def vabs(a):
    if a.kind == "complex":
        return V("float", uf("cabs", R, R, R)(a.re, a.im))
    return V(a.kind, z3.If(a.re >= 0, a.re, -a.re))


def trunc_int(a):
    """python int(x) for real x: truncation toward zero"""
    if a.kind in ("int", "bool"):
        return V("int", a.re)
    x = a.re
    return V("int", z3.If(x >= 0, z3.ToInt(x), -z3.ToInt(-x)))


def eq(a, b):
    """z3 Bool: numeric equality (python == across kinds)"""
    k = join(a.kind, b.kind)
    if k == "complex":
        a, b = lift(a, k), lift(b, k)
        return z3.And(a.re == b.re, a.im == b.im)
    if k == "float":
        return to_real(a.re) == to_real(b.re)
    return a.re == b.re


# ---- concrete evaluation of a model (for replay) ------------------------------------

def model_value(mdl, v):
    """python number for V under a z3 model (uninterpreted functions are NOT evaluated: used only for leaves)"""
    re = mdl.eval(v.re, model_completion=True)
    if v.kind in ("int", "bool"):
        return z3.simplify(re).as_long()
    if v.kind == "float":
        return _ratf(re)
    return complex(_ratf(re), _ratf(mdl.eval(v.im, model_completion=True)))


def _ratf(t):
    t = z3.simplify(t)
    if z3.is_int_value(t):
        return float(t.as_long())
    if z3.is_rational_value(t):
        return t.numerator_as_long() / t.denominator_as_long()
    if z3.is_algebraic_value(t):
        return float(t.approx(20).as_fraction())
    raise ValueError("cannot evaluate %s" % t)


# ---- python-number algebra with the same interface (replay-side reference) -----------

class PyAlg:
    """reference arithmetic on python numbers, per the property: python numeric tower, true division.
    `overflow` is set when an integer result leaves the 64-bit range (outside the properties' domain)."""
    overflow = False
    fscale = 0.0     # largest magnitude of a float/complex intermediate result (rounding errors are relative to it)

    @classmethod
    def _chk(cls, r):
        if isinstance(r, int) and not isinstance(r, bool) and abs(r) >= 2 ** 63:
            cls.overflow = True
        elif isinstance(r, (float, complex)):
            try:
                a = abs(r)
                if a != a or a == float("inf"):
                    cls.overflow = True       # a non-finite intermediate value: outside every property's domain ("values stay finite")
                elif a > cls.fscale:
                    cls.fscale = a
            except OverflowError:
                cls.overflow = True
        return r

    @staticmethod
    def const(x):
        return x

    @classmethod
    def add(cls, a, b):
        return cls._chk(a + b)

    @classmethod
    def sub(cls, a, b):
        return cls._chk(a - b)

    @classmethod
    def mul(cls, a, b):
        return cls._chk(a * b)

    @classmethod
    def neg(cls, a):
        return -a

    @classmethod
    def div(cls, a, b):
        return cls._chk(a / b)

    @classmethod
    def power(cls, a, b):
        if isinstance(a, int) and isinstance(b, int):
            if b < 0:
                return float(a) ** b
            if b > 4096 and abs(a) > 1:
                cls.overflow = True
                return 0
        return cls._chk(a ** b)

    @classmethod
    def func(cls, name, a):
        import numpy as np
        cls._chk(a * 1.0)
        return cls._chk(getattr(np, name)(a).item())

    pi = math.pi


class Z3Alg:
    const = staticmethod(const)
    add = staticmethod(add)
    sub = staticmethod(sub)
    mul = staticmethod(mul)
    neg = staticmethod(neg)
    div = staticmethod(div)
    power = staticmethod(power)
    func = staticmethod(func)
    pi = V("float", _realval(math.pi))   # the double nearest to pi, exactly (floats are reals in this model)
