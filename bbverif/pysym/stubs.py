"""Environment stubs installed from outside into the blackbird modules' namespaces.

Complete list (part of every claim that uses this engine):
  * names `int`, `float`, `complex`, `bool`, `str` in auxiliary / listener / program / utils -> shadow types
  * entries of listener.PYTHON_TYPES / NUMPY_TYPES wrapped (not replaced) by shadow types
  * name `np` in auxiliary / listener / program / utils -> pass-through shim (sum, prod, power, abs, the 15
    elementary functions, array, asarray of one number, all, ndim, dtype intercept proxies; everything else is real NumPy)
  * name `range` in listener -> forks over the trip count (<= K)
Everything else (antlr4 runtime, SymPy, networkx, copy, the parser, the listener walk) runs for real.
"""
import builtins
import numpy as real_np
import z3

from . import terms as T
from . import proxies as P
from .engine import Abort, cur
from .proxies import SNum, SBool, KIND_OF, is_proxy


# ---------------------------------------------------------------- shadow types
class _ShadowMeta(type):
    def __instancecheck__(cls, obj):
        return isinstance(obj, cls._real)

    def __subclasscheck__(cls, sub):
        return issubclass(sub, cls._real)

    def __call__(cls, *args, **kw):
        return cls._convert(*args, **kw)

    def __repr__(cls):
        return repr(cls._real)

    def __eq__(cls, other):
        return other is cls or other is cls._real or getattr(other, "_real", None) is cls._real

    def __hash__(cls):
        return hash(cls._real)


_shadow_cache = {}


def unshadow(t):
    return getattr(t, "_real", t)


def shadow(real):
    """type-like object standing for `real` (a python or numpy scalar type)"""
    real = unshadow(real)
    if real in _shadow_cache:
        return _shadow_cache[real]

    def convert(*args, **kw):
        if len(args) == 1 and not kw:
            x = args[0]
            if type(x) is SNum:
                return _convert_proxy(real, x)
            if type(x) is SBool:
                return real(bool(x))
            if P.STANDINS["on"] and real is float:
                import sympy
                if isinstance(x, sympy.Basic) and any(sy in P.STANDINS["map"] for sy in x.free_symbols):
                    r = P.from_sympy(x)
                    return SNum(T.V("float", T.to_real(P.as_v(r).re)), float) if P.as_v(r).kind != "complex" else r
            if isinstance(x, builtins.str) and real in (int, float, complex):
                r = {int: P.parse_int, float: P.parse_float, complex: P.parse_complex}[real](x)
                if r is not None:
                    return r
        return real(*args, **kw)

    cls = _ShadowMeta("shadow_" + real.__name__, (), {"_real": real, "_convert": staticmethod(convert),
                                                     "__name__": real.__name__})
    cls.__name__ = real.__name__
    _shadow_cache[real] = cls
    return cls


def _convert_proxy(real, x):
    if real is builtins.str or real is real_np.str_:
        return real(builtins.str(x))
    ex = P.exemplar(x.tag)
    with real_np.errstate(all="ignore"):
        import warnings
        with warnings.catch_warnings():
            warnings.simplefilter("ignore")
            res = real(ex)       # raises what the real type raises for this operand type
    rt = type(res)
    if rt not in KIND_OF:
        raise Abort("conversion result %r" % rt)
    k = KIND_OF[rt]
    v = x.v
    if k == "bool":
        return rt(bool(x))
    if k == "int":
        if v.kind == "complex":
            # the real library accepted a complex operand (NumPy: ComplexWarning, imaginary part discarded)
            return SNum(T.trunc_int(T.V("float", v.re)), rt)
        return SNum(T.trunc_int(v), rt)
    if k == "float":
        if v.kind == "complex":
            # numpy discards the imaginary part (with a warning)
            return SNum(T.V("float", v.re), rt)
        return SNum(T.V("float", T.to_f64(v.re)), rt)
    return SNum(T.lift(v, "complex"), rt)


# ---------------------------------------------------------------- arrays of proxies
class SArray(real_np.ndarray):
    """object ndarray that reports the dtype it was requested with"""

    def __array_finalize__(self, obj):
        self._fdtype = getattr(obj, "_fdtype", None)

    @property
    def dtype(self):
        fd = getattr(self, "_fdtype", None)
        return fd if fd is not None else real_np.ndarray.dtype.__get__(self)

    def astype(self, dt, *a, **k):
        dt = real_np.dtype(unshadow(dt))
        if dt == real_np.dtype(object):
            r = real_np.ndarray.astype(self, object).view(SArray)
            r._fdtype = dt
            return r
        flat = [_cast_elem(e, dt) for e in real_np.ndarray.flatten(self)]
        return make_sarray(flat, dt).reshape(self.shape)

    def __deepcopy__(self, memo):
        r = real_np.ndarray.copy(self)
        r._fdtype = self._fdtype
        return r

    def __reduce__(self):
        raise Abort("pickling an array of proxies")


def _cast_elem(e, dt):
    if dt == real_np.dtype(object):
        return e
    if is_proxy(e):
        return shadow(dt.type)(e)
    return dt.type(e)


def make_sarray(flat, dt, shape=None):
    arr = real_np.empty(len(flat), dtype=object)
    for i, e in enumerate(flat):
        arr[i] = e
    arr = arr.view(SArray)
    arr._fdtype = real_np.dtype(dt)
    if shape is not None:
        arr = arr.reshape(shape)
    return arr


def _flatten_nested(obj):
    """nested lists/tuples/arrays -> (flat list, shape) ; raises ValueError if ragged"""
    if isinstance(obj, (list, tuple)) or (isinstance(obj, real_np.ndarray) and obj.ndim > 0):
        subs = [_flatten_nested(x) for x in obj]
        if not subs:
            return [], (0,)
        shapes = {s for (_, s) in subs}
        if len(shapes) != 1:
            raise ValueError("setting an array element with a sequence. The requested array has an inhomogeneous shape")
        flat = [e for (f, _) in subs for e in f]
        return flat, (len(subs),) + subs[0][1]
    return [obj], ()


def has_proxy(obj, depth=0):
    if is_proxy(obj):
        return True
    if isinstance(obj, SArray):
        return True
    if isinstance(obj, (list, tuple)) and depth < 4:
        return any(has_proxy(x, depth + 1) for x in obj)
    if isinstance(obj, real_np.ndarray) and obj.dtype == object and depth < 2:
        return any(has_proxy(x, depth + 1) for x in obj.flat)
    return False


def _map_ex(obj):
    if type(obj) is SNum:
        return P.exemplar(obj.tag)
    if type(obj) is SBool:
        return True
    if isinstance(obj, SArray):
        dt = obj.dtype
        return real_np.array([_map_ex(x) for x in real_np.ndarray.flatten(obj)], dtype=dt).reshape(obj.shape)
    if isinstance(obj, (list, tuple)):
        return type(obj)(_map_ex(x) for x in obj)
    return obj


def _retag(res, ex_res):
    rt = type(ex_res)
    if rt not in KIND_OF:
        raise Abort("library result type %r" % rt)
    if type(res) is SBool:
        res = SNum(P.as_v(res), bool)
    if type(res) is not SNum:
        raise Abort("expected a proxy result, got %r" % type(res))
    return SNum(P._fit(res.v, KIND_OF[rt]), rt)


class NPShim:
    """stands for the name `np` inside the modules under test"""

    def __init__(self):
        self._real = real_np

    def __getattr__(self, name):
        return getattr(real_np, name)

    def _reduce(self, fname, a, *args, **kw):
        f = getattr(real_np, fname)
        if not has_proxy(a):
            return f(a, *args, **kw)
        if not isinstance(a, (list, tuple)) or any(isinstance(x, (list, tuple, real_np.ndarray)) for x in a):
            raise Abort("np.%s over nested operands with proxies" % fname)
        import sympy
        if any(isinstance(x, sympy.Basic) for x in a):
            raise Abort("np.%s mixes SymPy expressions and proxies (coefficients must be concrete)" % fname)
        with real_np.errstate(all="ignore"):
            ex_res = f(_map_ex(a), *args, **kw)   # the real library decides type / exception
        arr = real_np.empty(len(a), dtype=object)
        for i, e in enumerate(a):
            arr[i] = e
        res = f(arr, *args, **kw)              # real numpy reduces the object array through the proxies' operators
        return _retag(res, ex_res)

    def sum(self, a, *args, **kw):
        return self._reduce("sum", a, *args, **kw)

    def prod(self, a, *args, **kw):
        return self._reduce("prod", a, *args, **kw)

    def power(self, a, b, *args, **kw):
        if not (is_proxy(a) or is_proxy(b)):
            return real_np.power(a, b, *args, **kw)
        r = P._power(a, b, lib_power=real_np.power)
        if r is NotImplemented:
            raise Abort("np.power(%r, %r)" % (type(a), type(b)))
        return r

    def abs(self, x, *a, **k):
        if not is_proxy(x):
            return real_np.abs(x, *a, **k)
        return _retag(abs(x), real_np.abs(P._ex(x)))

    absolute = abs

    def signbit(self, x, *a, **k):
        if not is_proxy(x):
            return real_np.signbit(x, *a, **k)
        # floats are reals in the model: no negative zero, the sign bit is x < 0
        if x.v.kind == "complex":
            raise TypeError("ufunc 'signbit' not supported for the input types")
        return SBool(T.to_real(x.v.re) < 0)

    def arange(self, *args, **k):
        if not any(is_proxy(a) for a in args):
            return real_np.arange(*args, **k)
        if any(P.as_v(a).kind != "int" for a in args if is_proxy(a)) or k:
            raise Abort("np.arange with non-integer proxies")
        # integer arange = the range of the same bounds as an int64 array (bounds within 64 bits: stated domain)
        vals = list(srange(*args))
        return make_sarray([shadow(real_np.int64)(v) if is_proxy(v) else real_np.int64(v) for v in vals], real_np.dtype(real_np.int64), (len(vals),))

    def isclose(self, a, b, rtol=1e-05, atol=1e-08, **k):
        if not (is_proxy(a) or is_proxy(b)):
            return real_np.isclose(a, b, rtol=rtol, atol=atol, **k)
        # |a - b| <= atol + rtol * |b| over the reals (scalars only)
        va, vb = P.as_v(a), P.as_v(b)
        if va.kind == "complex" or vb.kind == "complex":
            raise Abort("np.isclose on complex proxies")
        d = T.to_real(va.re) - T.to_real(vb.re)
        ab = z3.If(T.to_real(vb.re) >= 0, T.to_real(vb.re), -T.to_real(vb.re))
        return SBool(z3.And(d <= T._realval(atol) + T._realval(rtol) * ab, -d <= T._realval(atol) + T._realval(rtol) * ab))

    def all(self, x, *a, **k):
        if type(x) is SBool:
            return x
        if is_proxy(x):
            return SBool(x.v.re != 0)
        return real_np.all(x, *a, **k)

    def ndim(self, x):
        if is_proxy(x):
            return 0
        return real_np.ndim(x)

    def dtype(self, x, *a, **k):
        return real_np.dtype(unshadow(x), *a, **k)

    def issubdtype(self, a, b):
        return real_np.issubdtype(unshadow(a), unshadow(b))

    def asarray(self, obj, *a, **k):
        # np.asarray of ONE symbolic number (the serialiser asks for the NumPy kind of an array element this way): a 0-d array with
        # the dtype real NumPy gives a value of the proxy's type; every other use goes to the real function, as before
        if type(obj) in (SNum, SBool) and not a and not k:
            return make_sarray([obj], real_np.asarray(_map_ex(obj)).dtype, ())
        return real_np.asarray(obj, *a, **k)

    def array(self, obj, dtype=None, *a, **k):
        dtype = unshadow(dtype) if dtype is not None else None
        if not has_proxy(obj):
            return real_np.array(obj, dtype=dtype, *a, **k)
        if isinstance(obj, SArray) and (dtype is None or real_np.dtype(dtype) == obj.dtype):
            return obj
        flat, shape = _flatten_nested(obj)
        import sympy
        if any(isinstance(x, sympy.Basic) for x in flat):
            dt = real_np.dtype(object) if dtype is None else real_np.dtype(dtype)
            if dt != real_np.dtype(object):
                real_np.array(_map_ex(flat), dtype=dt)   # raises like the real library
            return make_sarray(flat, real_np.dtype(object), shape)
        with real_np.errstate(all="ignore"):
            import warnings
            with warnings.catch_warnings():
                warnings.simplefilter("ignore")
                ex = real_np.array(_map_ex(flat), dtype=dtype)   # raises what real numpy raises for these element types
        dt = ex.dtype
        return make_sarray([_cast_elem(e, dt) for e in flat], dt, shape)

    def insert(self, arr, idx, val, *a, **k):
        r = real_np.insert(arr, idx, val, *a, **k)
        if isinstance(arr, SArray) and not isinstance(r, SArray):
            r = r.view(SArray)
            r._fdtype = arr._fdtype
        return r


def _mk_ufunc(name):
    def f(self, x, *a, **k):
        if not is_proxy(x):
            return getattr(real_np, name)(x, *a, **k)
        return P.apply_func(name, x, lib=real_np)
    f.__name__ = name
    return f


for _n in T.FUNCS:
    setattr(NPShim, _n, _mk_ufunc(_n))


# ---------------------------------------------------------------- range
class RangeBound:
    K = 3


def srange(*args):
    if not any(is_proxy(a) for a in args):
        return builtins.range(*args)
    e = cur()
    if len(args) == 1:
        a, b, c = 0, args[0], 1
    elif len(args) == 2:
        a, b, c = args[0], args[1], 1
    else:
        a, b, c = args
    va, vb, vc = (P.as_v(x).re for x in (a, b, c))
    if e.branch(vc == 0):
        raise ValueError("range() arg 3 must not be zero")
    pos = e.branch(vc > 0)
    K = RangeBound.K

    def count_is(k):
        if pos:
            if k == 0:
                return va >= vb
            return z3.And(va + (k - 1) * vc < vb, va + k * vc >= vb)
        if k == 0:
            return va <= vb
        return z3.And(va + (k - 1) * vc > vb, va + k * vc <= vb)

    e.assume(z3.Or([count_is(k) for k in builtins.range(K + 1)]))   # stated bound: trip count <= K
    e.note("bound", "range trip count <= %d" % K)
    for k in builtins.range(K + 1):
        if e.branch(count_is(k)):
            r = SRange(_lin(a, c, i) for i in builtins.range(k))
            r.start, r.stop, r.step = a, b, c
            return r
    raise Abort("range trip count")


class SRange(list):
    """the unrolled symbolic range; keeps the attributes of a range object"""


def _lin(a, c, i):
    v = T.add(P.as_v(a), T.mul(T.const(i), P.as_v(c)))
    return SNum(v, int)


# ---------------------------------------------------------------- installation
_installed = {}


def install(modules=("auxiliary", "listener", "program", "utils")):
    """shadow names in the real modules of the working tree; idempotent; returns the module dict"""
    import importlib
    import blackbird
    mods = {}
    shim = NPShim()
    for m in modules:
        mod = importlib.import_module("blackbird." + m)
        mods[m] = mod
        if m in _installed:
            continue
        for nm in ("int", "float", "complex", "bool", "str"):
            setattr(mod, nm, shadow(getattr(builtins, nm)))
        if hasattr(mod, "np"):
            mod.np = shim
        if m == "listener":
            mod.range = srange
            for tbl in ("PYTHON_TYPES", "NUMPY_TYPES"):
                d = getattr(mod, tbl)
                for k, v in list(d.items()):
                    if unshadow(v) in KIND_OF or unshadow(v) in (builtins.str, real_np.str_):
                        d[k] = shadow(v)
        _installed[m] = True
    mods["blackbird"] = blackbird
    return mods


def reset_tables():
    import blackbird.auxiliary as aux
    aux._VAR.clear()
    aux._PARAMS.clear()
