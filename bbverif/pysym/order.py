"""The `order` stub: iteration order of hash-randomised sets becomes a symbolic permutation.

* `sympy` objects' `free_symbols` (every class that defines the property) returns a PermSet;
* the name `set` in the blackbird modules under test builds PermSets;
* iterating a PermSet *from a frame of the code under test* whose elements are hashed by string (str, sympy symbols)
  asks the engine to fork over the permutations.  One order is chosen per distinct set content per path (a hash seed
  fixes one order per content for sets built the same way - stated assumption); int-keyed sets are not permuted here.
Every iteration site is recorded (file:line), so the evidence lists where the code under test depends on set order.
"""
import builtins
import itertools
import os
import sys

import z3

from .engine import Engine

_REPO = os.path.join(os.environ.get("BBVERIF_REPO", "/repo"), "blackbird_python", "blackbird") + os.sep
SITES = {}
_active = {"on": False}
_real_set = builtins.set


def _permutable(elems):
    import sympy
    return len(elems) > 1 and all(isinstance(e, (str, sympy.Basic)) for e in elems)


def _perm_iter(self, base, f):
        e = Engine.current
        if not _active["on"] or e is None:
            return base.__iter__(self)
        fn = f.f_code.co_filename
        if not fn.startswith(_REPO):
            return base.__iter__(self)
        elems = sorted(base.__iter__(self), key=repr)
        if not _permutable(elems):
            return base.__iter__(self)
        site = "%s:%d" % (os.path.basename(fn), f.f_lineno)
        SITES[site] = SITES.get(site, 0) + 1
        cache = e.__dict__.setdefault("_order_cache", {})
        if getattr(e, "_order_cache_path", None) is not e.trace:
            # new path: the engine creates a new trace list per path
            cache.clear()
            e._order_cache_path = e.trace
        key = tuple(repr(x) for x in elems)
        if key not in cache:
            # sequential selection: position i picks one of the remaining elements (fresh unconstrained Booleans)
            remaining = list(elems)
            order = []
            n = len(cache)
            while len(remaining) > 1:
                pick = len(remaining) - 1
                for j in range(len(remaining) - 1):
                    b = z3.Bool("order!%d!%d!%d" % (n, len(order), j))
                    if e.branch(b):
                        pick = j
                        break
                order.append(remaining.pop(pick))
            order.append(remaining[0])
            cache[key] = order
            e.note("order", site, [repr(x) for x in order])
        return iter(list(cache[key]))


class PermFrozenSet(frozenset):
    """the name `frozenset` in the modules under test: same symbolic iteration order"""

    def __iter__(self):
        return _perm_iter(self, frozenset, sys._getframe(1))


class PermSet(_real_set):
    def __iter__(self):
        return _perm_iter(self, _real_set, sys._getframe(1))

    # set algebra must keep returning PermSets so that later iterations are still controlled
    def _wrap(self, r):
        return PermSet(r) if isinstance(r, _real_set) and not isinstance(r, PermSet) else r

    def __or__(self, o):
        return self._wrap(_real_set.__or__(self, o))

    def __and__(self, o):
        return self._wrap(_real_set.__and__(self, o))

    def __sub__(self, o):
        return self._wrap(_real_set.__sub__(self, o))

    def union(self, *o):
        return self._wrap(_real_set.union(self, *o))

    def copy(self):
        return PermSet(_real_set.__iter__(self))

    def __reduce__(self):
        return (_real_set, (list(_real_set.__iter__(self)),))

    def __deepcopy__(self, memo):
        import copy
        return PermSet(copy.deepcopy(x, memo) for x in _real_set.__iter__(self))


class _SetShadowMeta(type):
    def __instancecheck__(cls, obj):
        return isinstance(obj, _real_set)

    def __call__(cls, *a):
        return PermSet(*a)


class SetShadow(metaclass=_SetShadowMeta):
    """stands for the name `set` in the modules under test"""


class _FrozenShadowMeta(type):
    def __instancecheck__(cls, obj):
        return isinstance(obj, frozenset)

    def __call__(cls, *a):
        return PermFrozenSet(*a)


class FrozenShadow(metaclass=_FrozenShadowMeta):
    """stands for the name `frozenset` in the modules under test"""


_installed = {"done": False}


def install(modules=("listener", "program", "utils", "auxiliary")):
    import importlib
    import sympy
    if not _installed["done"]:
        # every sympy class that defines free_symbols
        seen = set()
        stack = [sympy.Basic]
        while stack:
            c = stack.pop()
            if c in seen:
                continue
            seen.add(c)
            stack.extend(c.__subclasses__())
            fs = c.__dict__.get("free_symbols")
            if isinstance(fs, property) and not getattr(fs.fget, "_bbverif", False):
                def mk(orig):
                    def free_symbols(self):
                        r = orig(self)
                        if _active["on"] and isinstance(r, _real_set) and not isinstance(r, PermSet):
                            return PermSet(r)
                        return r
                    free_symbols._bbverif = True
                    return free_symbols
                try:
                    setattr(c, "free_symbols", property(mk(fs.fget)))
                except (TypeError, AttributeError):
                    pass
        for m in modules:
            mod = importlib.import_module("blackbird." + m)
            mod.set = SetShadow
            mod.frozenset = FrozenShadow
        _installed["done"] = True
    _active["on"] = True


def deactivate():
    _active["on"] = False
