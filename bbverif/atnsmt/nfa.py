"""NFAs from (a) the g4 regex ASTs and (b) the shipped ATNs, epsilon elimination,
concrete simulation (for encoder validation) and bounded symbolic unrolling in z3.

A label is ('cs', ((lo,hi),...), negated)  for character sets, or
           ('sy', frozenset(ints))         for parser symbols
           (token types 1..n, rule r as RULE_BASE + r).
"""
import z3

RULE_BASE = 128
MAXCP = 0x10FFFF


class NFA:
    def __init__(self):
        self.n = 0
        self.eps = []   # (s, t)
        self.edges = []  # (s, label, t)
        self.start = None
        self.accept = set()

    def new(self):
        self.n += 1
        return self.n - 1

    # ---- epsilon elimination -------------------------------------------------
    def closure(self):
        adj = [[] for _ in range(self.n)]
        for s, t in self.eps:
            adj[s].append(t)
        clo = []
        for s in range(self.n):
            seen = {s}
            stack = [s]
            while stack:
                x = stack.pop()
                for y in adj[x]:
                    if y not in seen:
                        seen.add(y)
                        stack.append(y)
            clo.append(seen)
        return clo

    def eps_free(self):
        clo = self.closure()
        out_edges = [[] for _ in range(self.n)]
        for s, l, t in self.edges:
            out_edges[s].append((l, t))
        keep = {self.start} | {t for (_, _, t) in self.edges}
        # reachable only
        order = []
        seen = {self.start}
        stack = [self.start]
        new_edges = {}
        while stack:
            s = stack.pop()
            order.append(s)
            es = []
            for x in clo[s]:
                for l, t in out_edges[x]:
                    es.append((l, t))
                    if t not in seen:
                        seen.add(t)
                        stack.append(t)
            new_edges[s] = es
        idx = {s: i for i, s in enumerate(sorted(seen))}
        m = NFA()
        m.n = len(idx)
        m.start = idx[self.start]
        for s in seen:
            if clo[s] & self.accept:
                m.accept.add(idx[s])
            for l, t in new_edges[s]:
                m.edges.append((idx[s], l, idx[t]))
        # merge duplicate edges
        m.edges = sorted(set(m.edges), key=lambda e: (e[0], e[2], repr(e[1])))
        return m

    # ---- concrete simulation -------------------------------------------------
    def accepts_lengths(self, seq):
        """set of k such that seq[:k] is accepted (self must be eps-free)"""
        cur = {self.start}
        res = set()
        if cur & self.accept:
            res.add(0)
        out = {}
        for s, l, t in self.edges:
            out.setdefault(s, []).append((l, t))
        for k, v in enumerate(seq):
            nxt = set()
            for s in cur:
                for l, t in out.get(s, ()):
                    if label_matches(l, v):
                        nxt.add(t)
            cur = nxt
            if not cur:
                break
            if cur & self.accept:
                res.add(k + 1)
        return res


def label_matches(l, v):
    if l[0] == "cs":
        inside = any(lo <= v <= hi for lo, hi in l[1])
        return inside != l[2] and 0 <= v <= MAXCP
    return v in l[1]


def label_z3(l, c):
    """z3 Bool: bit-vector c matches label l"""
    if l[0] == "cs":
        parts = []
        for lo, hi in l[1]:
            if lo == hi:
                parts.append(c == lo)
            else:
                parts.append(z3.And(z3.UGE(c, lo), z3.ULE(c, hi)))
        inside = z3.Or(parts) if parts else z3.BoolVal(False)
        return z3.Not(inside) if l[2] else inside
    vals = sorted(l[1])
    return z3.Or([c == v for v in vals]) if vals else z3.BoolVal(False)


# ---- Thompson construction from g4 AST ---------------------------------------

def from_ast(ast, lexer_rules=None, token_ids=None, rule_ids=None):
    """lexer_rules: dict name->ast (inlined on reference) for lexer rules;
    token_ids/rule_ids: name->int for parser rules."""
    m = NFA()

    def build(node, s, depth):
        """returns end state"""
        k = node[0]
        if k == "seq":
            for x in node[1]:
                s = build(x, s, depth)
            return s
        if k == "alt":
            e = m.new()
            for x in node[1]:
                a = m.new()
                m.eps.append((s, a))
                b = build(x, a, depth)
                m.eps.append((b, e))
            return e
        if k in ("star", "plus", "opt"):
            a = m.new()
            m.eps.append((s, a))
            b = build(node[1], a, depth)
            e = m.new()
            m.eps.append((b, e))
            if k in ("star", "opt"):
                m.eps.append((s, e))
            if k in ("star", "plus"):
                m.eps.append((b, a))
            return e
        if k == "lit":
            if lexer_rules is None:
                raise ValueError("literal in parser rule unsupported")
            for ch in node[1]:
                t = m.new()
                m.edges.append((s, ("cs", ((ord(ch), ord(ch)),), False), t))
                s = t
            return s
        if k == "set":
            t = m.new()
            m.edges.append((s, ("cs", tuple(sorted(node[1])), node[2]), t))
            return t
        if k == "any":
            t = m.new()
            if lexer_rules is not None:
                m.edges.append((s, ("cs", (), True), t))
            else:
                m.edges.append((s, ("sy", frozenset(token_ids.values())), t))
            return t
        if k == "tok":
            if lexer_rules is not None:
                if depth > 50:
                    raise ValueError("recursive lexer rule")
                if node[1] not in lexer_rules:
                    raise ValueError("unknown lexer rule %s" % node[1])
                return build(lexer_rules[node[1]], s, depth + 1)
            t = m.new()
            if node[1] == "EOF":
                m.edges.append((s, ("sy", frozenset([0])), t))
            else:
                m.edges.append((s, ("sy", frozenset([token_ids[node[1]]])), t))
            return t
        if k == "rule":
            t = m.new()
            m.edges.append((s, ("sy", frozenset([RULE_BASE + rule_ids[node[1]]])), t))
            return t
        raise ValueError("unknown node %r" % (node,))

    m.start = m.new()
    end = build(ast, m.start, 0)
    m.accept = {end}
    return m


# ---- from a deserialized ATN -----------------------------------------------

def from_atn_rule(atn, rule_index, inline_rules):
    """NFA of one rule of an antlr4 ATN object.
    inline_rules=True  (lexer): RuleTransitions are macro-expanded.
    inline_rules=False (parser): a RuleTransition becomes a symbol edge RULE_BASE+r.
    Action and (precedence) predicate transitions are epsilon.
    Returns (nfa, info) with info = {'actions': [...], 'precpreds': [...]}"""
    from antlr4.atn.Transition import Transition
    m = NFA()
    info = {"actions": [], "precpreds": [], "rulecalls": []}

    def copy_rule(r, entry, depth):
        """copy rule r's sub-automaton; returns state id of its stop state copy"""
        if depth > 50:
            raise ValueError("recursive lexer rule in ATN")
        start = atn.ruleToStartState[r]
        stop = atn.ruleToStopState[r]
        mp = {start.stateNumber: entry}
        stack = [start]

        def get(st):
            if st.stateNumber not in mp:
                mp[st.stateNumber] = m.new()
                stack.append(st)
            return mp[st.stateNumber]

        stop_id = get(stop)
        while stack:
            st = stack.pop()
            if st is stop:
                continue  # stop-state "follow" links are not part of the rule
            s = mp[st.stateNumber]
            for tr in st.transitions:
                tt = tr.serializationType
                if tt == Transition.EPSILON:
                    m.eps.append((s, get(tr.target)))
                elif tt == Transition.ACTION:
                    info["actions"].append((r, tr.ruleIndex, tr.actionIndex))
                    m.eps.append((s, get(tr.target)))
                elif tt == Transition.PRECEDENCE:
                    info["precpreds"].append(tr.precedence)
                    m.eps.append((s, get(tr.target)))
                elif tt == Transition.PREDICATE:
                    raise ValueError("semantic predicate in ATN")
                elif tt == Transition.RULE:
                    if inline_rules:
                        a = m.new()
                        m.eps.append((s, a))
                        e = copy_rule(tr.ruleIndex, a, depth + 1)
                        m.eps.append((e, get(tr.followState)))
                    else:
                        info["rulecalls"].append((tr.ruleIndex, tr.precedence))
                        m.edges.append((s, ("sy", frozenset([RULE_BASE + tr.ruleIndex])), get(tr.followState)))
                elif tt == Transition.ATOM:
                    m.edges.append((s, _lab(inline_rules, [(tr.label_, tr.label_)], False), get(tr.target)))
                elif tt == Transition.RANGE:
                    m.edges.append((s, _lab(inline_rules, [(tr.start, tr.stop)], False), get(tr.target)))
                elif tt in (Transition.SET, Transition.NOT_SET):
                    ivs = [(iv.start, iv.stop - 1) for iv in tr.label.intervals]
                    m.edges.append((s, _lab(inline_rules, ivs, tt == Transition.NOT_SET), get(tr.target)))
                elif tt == Transition.WILDCARD:
                    m.edges.append((s, _lab(inline_rules, [], True), get(tr.target)))
                else:
                    raise ValueError("unknown transition type %r" % tt)
        return stop_id

    m.start = m.new()
    stop = copy_rule(rule_index, m.start, 0)
    m.accept = {stop}
    return m, info


def _lab(chars, ivs, negated):
    if chars:
        return ("cs", tuple(sorted(ivs)), negated)
    vals = set()
    for lo, hi in ivs:
        vals.update(range(lo, hi + 1))
    if negated:
        raise ValueError("negated token set in parser ATN unsupported")
    # antlr4 encodes EOF as -1; we use 0
    vals = {0 if v == -1 else v for v in vals}
    return ("sy", frozenset(vals))


# ---- bounded symbolic unrolling ---------------------------------------------

def unroll(m, syms, off=0, prefix="r"):
    """m eps-free.  Returns list acc[k] (k=0..len(syms)-off) of z3 Bool:
    'm accepts syms[off:off+k]'.  Builds nested expressions (DAG-shared)."""
    out = {}
    for s, l, t in m.edges:
        out.setdefault(s, []).append((l, t))
    cur = {m.start: z3.BoolVal(True)}
    acc = [z3.BoolVal(m.start in m.accept)]
    lab_cache = {}
    for k in range(off, len(syms)):
        c = syms[k]
        nxt = {}
        for s, cond in cur.items():
            for l, t in out.get(s, ()):
                key = (l, k)
                if key not in lab_cache:
                    lab_cache[key] = label_z3(l, c)
                nxt.setdefault(t, []).append(z3.And(cond, lab_cache[key]))
        cur = {t: (z3.Or(cs) if len(cs) > 1 else cs[0]) for t, cs in nxt.items()}
        a = [cur[s] for s in cur if s in m.accept]
        acc.append(z3.Or(a) if a else z3.BoolVal(False))
        if not cur:
            acc.extend([z3.BoolVal(False)] * (len(syms) - k - 1))
            break
    return acc
