"""Extraction of every shipped automaton / artefact of the grammar from /repo.

Nothing is cached: every call re-reads the files of the working tree.
"""
import importlib
import os
import re
import sys

REPO = os.environ.get("BBVERIF_REPO", "/repo")
PYDIR = os.path.join(REPO, "blackbird_python", "blackbird")
CPPDIR = os.path.join(REPO, "blackbird_cpp")
G4 = os.path.join(REPO, "src", "blackbird.g4")


def _deser(ints):
    from antlr4.atn.ATNDeserializer import ATNDeserializer
    return ATNDeserializer().deserialize("".join(chr(v) for v in ints))


def py_modules():
    """the real generated modules of the working tree (fresh import)"""
    import blackbird
    assert os.path.realpath(os.path.dirname(blackbird.__file__)) == os.path.realpath(PYDIR), blackbird.__file__
    from blackbird import blackbirdLexer as L, blackbirdParser as P
    return L, P


def py_atn_ints(kind):
    L, P = py_modules()
    mod = L if kind == "lexer" else P
    return [ord(c) for c in mod.serializedATN()]


def cpp_atn_ints(kind):
    path = os.path.join(CPPDIR, "blackbirdLexer.cpp" if kind == "lexer" else "blackbirdParser.cpp")
    text = open(path, encoding="utf-8", errors="replace").read()
    segs = re.findall(r"static const uint16_t serializedATNSegment(\d+)\[\]\s*=\s*\{(.*?)\};", text, re.S)
    if not segs:
        raise ValueError("no serialized ATN in " + path)
    segs.sort(key=lambda s: int(s[0]))
    ints = []
    for _, body in segs:
        ints.extend(int(x, 16) for x in re.findall(r"0x[0-9a-fA-F]+", body))
    return ints


def cpp_names(kind):
    """rule names / literal names / symbolic names vectors from the C++ source"""
    path = os.path.join(CPPDIR, "blackbirdLexer.cpp" if kind == "lexer" else "blackbirdParser.cpp")
    text = open(path, encoding="utf-8", errors="replace").read()
    out = {}
    for key in ("_ruleNames", "_literalNames", "_symbolicNames"):
        m = re.search(r"std::vector<std::string>\s+\w+::" + key + r"\s*=\s*\{(.*?)\};", text, re.S)
        if not m:
            raise ValueError("no %s in %s" % (key, path))
        out[key] = [_cunescape(x) for x in re.findall(r'"((?:\\.|[^"\\])*)"', m.group(1))]
    return out


def _cunescape(s):
    return s.replace('\\"', '"').replace("\\\\", "\\")


def interp(path):
    """parse an ANTLR .interp file"""
    sections = {}
    cur = None
    for line in open(path, encoding="utf-8").read().split("\n"):
        if line.endswith(":") and re.match(r"^[a-z ]+:$", line):
            cur = line[:-1]
            sections[cur] = []
        elif cur is not None:
            sections[cur].append(line)
    for k in sections:
        while sections[k] and sections[k][-1] == "":
            sections[k].pop()
    atn = [int(x) for x in re.findall(r"-?\d+", " ".join(sections["atn"]))]
    sections["atn"] = atn
    return sections


def tokens_file(path):
    d = {}
    for line in open(path, encoding="utf-8").read().split("\n"):
        if not line.strip():
            continue
        k, v = line.rsplit("=", 1)
        d[k] = int(v)
    return d


def all_atns():
    """dict label -> list of ints, for lexer and parser"""
    res = {"lexer": {}, "parser": {}}
    res["lexer"]["python/blackbirdLexer.py"] = py_atn_ints("lexer")
    res["parser"]["python/blackbirdParser.py"] = py_atn_ints("parser")
    res["lexer"]["cpp/blackbirdLexer.cpp"] = cpp_atn_ints("lexer")
    res["parser"]["cpp/blackbirdParser.cpp"] = cpp_atn_ints("parser")
    res["lexer"]["python/blackbirdLexer.interp"] = interp(os.path.join(PYDIR, "blackbirdLexer.interp"))["atn"]
    res["parser"]["python/blackbird.interp"] = interp(os.path.join(PYDIR, "blackbird.interp"))["atn"]
    res["lexer"]["cpp/blackbirdLexer.interp"] = interp(os.path.join(CPPDIR, "blackbirdLexer.interp"))["atn"]
    res["parser"]["cpp/blackbird.interp"] = interp(os.path.join(CPPDIR, "blackbird.interp"))["atn"]
    return res


def deserialize(ints):
    return _deser(ints)
