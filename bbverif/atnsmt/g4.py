"""Reader for the subset of ANTLR4 grammar syntax used by src/blackbird.g4.

Independent of the ANTLR tool: the grammar text is turned into a small regex
AST per rule, from which Thompson NFAs are built (nfa.py).  Anything outside
the subset raises G4Error (the checks then report a harness error, never a
pass).

AST nodes (tuples):
  ('seq', [n...]) ('alt', [n...]) ('star', n) ('plus', n) ('opt', n)
  ('tok', NAME)        token reference (parser rules) / lexer rule or fragment reference (lexer rules)
  ('rule', name)       parser rule reference
  ('lit', 'text')      literal (lexer: char sequence; parser: implicit token, unsupported)
  ('set', [(lo,hi)...], negated)   character set (lexer)
  ('any',)             wildcard '.'
"""
import re


class G4Error(Exception):
    pass


_TOK = re.compile(
    r"""
    (?P<ws>\s+)
  | (?P<lcomment>//[^\n]*)
  | (?P<bcomment>/\*.*?\*/)
  | (?P<lit>'(?:\\.|[^'\\])*')
  | (?P<cset>\[(?:\\.|[^\]\\])*\])
  | (?P<arrow>->)
  | (?P<pluseq>\+=)
  | (?P<opt><[^>]*>)
  | (?P<id>[A-Za-z_][A-Za-z_0-9]*)
  | (?P<punct>[:;|()?*+~.#=])
""",
    re.X | re.S,
)


def _tokens(text):
    pos = 0
    out = []
    while pos < len(text):
        m = _TOK.match(text, pos)
        if not m:
            raise G4Error("cannot tokenise grammar at offset %d: %r" % (pos, text[pos:pos + 20]))
        pos = m.end()
        k = m.lastgroup
        if k in ("ws", "lcomment", "bcomment"):
            continue
        out.append((k, m.group(k)))
    return out


_ESC = {"n": "\n", "r": "\r", "t": "\t", "\\": "\\", "'": "'", '"': '"', "]": "]", "-": "-", "[": "["}


def _unescape(s):
    out = []
    i = 0
    while i < len(s):
        c = s[i]
        if c == "\\":
            i += 1
            e = s[i]
            if e == "u":
                out.append(chr(int(s[i + 1:i + 5], 16)))
                i += 4
            elif e in _ESC:
                out.append(_ESC[e])
            else:
                raise G4Error("unknown escape \\%s" % e)
        else:
            out.append(c)
        i += 1
    return out


def _charset(body):
    """body of [...] -> list of (lo, hi) code point intervals"""
    # keep track of which '-' were escaped
    items = []
    i = 0
    while i < len(body):
        c = body[i]
        if c == "\\":
            e = body[i + 1]
            if e == "u":
                items.append((chr(int(body[i + 2:i + 6], 16)), True))
                i += 6
                continue
            if e not in _ESC:
                raise G4Error("unknown escape in set \\%s" % e)
            items.append((_ESC[e], True))
            i += 2
        else:
            items.append((c, False))
            i += 1
    ivs = []
    j = 0
    while j < len(items):
        ch, esc = items[j]
        if j + 2 < len(items) and items[j + 1] == ("-", False):
            hi = items[j + 2][0]
            ivs.append((ord(ch), ord(hi)))
            j += 3
        else:
            ivs.append((ord(ch), ord(ch)))
            j += 1
    return ivs


class Grammar:
    def __init__(self):
        self.name = None
        self.parser_rules = []  # (name, ast, info)  info: list of alt dicts for labelled alternatives
        self.lexer_rules = []   # (name, ast, is_fragment, actions)

    @property
    def token_names(self):
        return [n for (n, _, frag, _) in self.lexer_rules if not frag]


class _P:
    def __init__(self, toks):
        self.t = toks
        self.i = 0

    def peek(self):
        return self.t[self.i] if self.i < len(self.t) else (None, None)

    def next(self):
        x = self.peek()
        self.i += 1
        return x

    def expect(self, val):
        k, v = self.next()
        if v != val:
            raise G4Error("expected %r, got %r" % (val, v))

    # alternatives : alt ('|' alt)*
    def alts(self, lexer, top=False):
        alts = []
        infos = []
        while True:
            a, info = self.alt(lexer, top)
            alts.append(a)
            infos.append(info)
            if self.peek()[1] == "|":
                self.next()
                continue
            break
        if len(alts) == 1:
            return alts[0], infos
        return ("alt", alts), infos

    def alt(self, lexer, top):
        elems = []
        info = {"assoc": None, "label": None, "actions": []}
        while True:
            k, v = self.peek()
            if v in ("|", ")", ";") or k is None:
                break
            if k == "opt":
                m = re.match(r"<\s*assoc\s*=\s*(\w+)\s*>", v)
                if not m:
                    raise G4Error("unsupported option %s" % v)
                info["assoc"] = m.group(1)
                self.next()
                continue
            if v == "#":
                self.next()
                info["label"] = self.next()[1]
                continue
            if k == "arrow":
                self.next()
                k2, v2 = self.next()
                if k2 != "id":
                    raise G4Error("bad lexer command")
                info["actions"].append(v2)
                if self.peek()[1] == "(":
                    raise G4Error("lexer commands with arguments unsupported")
                continue
            elems.append(self.elem(lexer))
        node = elems[0] if len(elems) == 1 else ("seq", elems)
        return node, info

    def elem(self, lexer):
        k, v = self.next()
        if k == "id":
            # label?
            if self.peek()[1] in ("=",) or self.peek()[0] == "pluseq":
                self.next()
                return self.elem(lexer)
            if lexer or v[0].isupper():
                node = ("tok", v)
            else:
                node = ("rule", v)
        elif k == "lit":
            node = ("lit", "".join(_unescape(v[1:-1])))
        elif k == "cset":
            if not lexer:
                raise G4Error("char set in parser rule")
            node = ("set", _charset(v[1:-1]), False)
        elif v == ".":
            node = ("any",)
        elif v == "~":
            inner = self.elem_noquant(lexer)
            node = self._negate(inner)
        elif v == "(":
            node, _ = self.alts(lexer)
            self.expect(")")
        else:
            raise G4Error("unexpected %r" % (v,))
        return self.quant(node)

    def elem_noquant(self, lexer):
        k, v = self.next()
        if k == "cset":
            return ("set", _charset(v[1:-1]), False)
        if k == "lit":
            s = _unescape(v[1:-1])
            if len(s) != 1:
                raise G4Error("~ of multi-char literal")
            return ("set", [(ord(s[0]), ord(s[0]))], False)
        if v == "(":
            node, _ = self.alts(lexer)
            self.expect(")")
            return node
        raise G4Error("unsupported operand of ~")

    def _negate(self, node):
        if node[0] == "set":
            return ("set", node[1], not node[2])
        if node[0] == "alt" and all(n[0] == "set" and not n[2] for n in node[1]):
            ivs = [iv for n in node[1] for iv in n[1]]
            return ("set", ivs, True)
        if node[0] == "lit" and len(node[1]) == 1:
            return ("set", [(ord(node[1]), ord(node[1]))], True)
        raise G4Error("unsupported ~ operand %r" % (node,))

    def quant(self, node):
        while True:
            v = self.peek()[1]
            if v == "*":
                self.next()
                node = ("star", node)
            elif v == "+":
                self.next()
                node = ("plus", node)
            elif v == "?":
                self.next()
                if node[0] in ("star", "plus", "opt") and False:
                    pass
                node = ("opt", node)
            else:
                return node
            if self.peek()[1] == "?":
                raise G4Error("non-greedy operators unsupported")


def read_grammar(path):
    text = open(path, encoding="utf-8").read()
    toks = _tokens(text)
    p = _P(toks)
    g = Grammar()
    k, v = p.next()
    if v in ("lexer", "parser"):
        raise G4Error("split grammars unsupported")
    if v != "grammar":
        raise G4Error("expected 'grammar'")
    g.name = p.next()[1]
    p.expect(";")
    while p.peek()[0] is not None:
        k, v = p.next()
        frag = False
        if v == "fragment":
            frag = True
            k, v = p.next()
        if k != "id":
            raise G4Error("expected rule name, got %r" % (v,))
        name = v
        p.expect(":")
        lexer = name[0].isupper()
        ast, infos = p.alts(lexer, top=True)
        p.expect(";")
        if lexer:
            actions = []
            for inf in infos:
                actions.extend(inf["actions"])
            if len(infos) > 1 and actions:
                raise G4Error("lexer command on one of several alternatives unsupported")
            g.lexer_rules.append((name, ast, frag, actions))
        else:
            if frag:
                raise G4Error("fragment parser rule")
            g.parser_rules.append((name, ast, infos))
    return g
