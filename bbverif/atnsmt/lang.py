"""Language-level helpers on top of g4/nfa/cfg: build both sides (grammar, shipped ATN),
concrete tokeniser from either side, real-lexer/real-parser drivers for validation
and replay, canonical lexemes."""
import z3

from . import g4 as g4mod, nfa, atns, cfg


class Lang:
    """Everything derived from the working tree, built once per process."""

    def __init__(self, lexer_atn=None, parser_atn=None):
        self.g = g4mod.read_grammar(atns.G4)
        self.L, self.P = atns.py_modules()
        self.latn = lexer_atn or self.L.blackbirdLexer.atn
        self.patn = parser_atn or self.P.blackbirdParser.atn
        self.lex_asts = {n: a for (n, a, f, ac) in self.g.lexer_rules}
        self.token_names = self.g.token_names
        self.tok_ids = {n: i + 1 for i, n in enumerate(self.token_names)}
        self.tok_names = {i + 1: n for i, n in enumerate(self.token_names)}
        self.tok_names[0] = "EOF"
        self.rule_names = [n for (n, _, _) in self.g.parser_rules]
        self.rule_ids = {n: i for i, n in enumerate(self.rule_names)}
        self.skip_g = {n for (n, a, f, ac) in self.g.lexer_rules if "skip" in ac}
        self._lexG = None
        self._lexA = None
        self._parG = None
        self._parA = None
        self.parser_info = {}

    # ---- lexer sides: list of (rule name, token type or None for fragment, eps-free NFA)
    def lexer_G(self):
        if self._lexG is None:
            out = []
            for (n, a, frag, ac) in self.g.lexer_rules:
                m = nfa.from_ast(a, lexer_rules=self.lex_asts).eps_free()
                out.append((n, None if frag else self.tok_ids[n], m))
            self._lexG = out
        return self._lexG

    def lexer_A(self):
        if self._lexA is None:
            out = []
            names = self.L.blackbirdLexer.ruleNames
            atn = self.latn
            self.lexer_actions = {}
            for ri in range(len(atn.ruleToStartState)):
                m, info = nfa.from_atn_rule(atn, ri, True)
                ttype = atn.ruleToTokenType[ri]
                acts = []
                for (r, rule_index, action_index) in info["actions"]:
                    if r == ri:
                        acts.append(type(atn.lexerActions[action_index]).__name__)
                name = names[ri] if ri < len(names) else "rule%d" % ri
                self.lexer_actions[name] = acts
                out.append((name, ttype if ttype > 0 else None, m.eps_free()))
            self._lexA = out
        return self._lexA

    # ---- parser sides: rule index -> eps-free NFA over tokens/rule refs
    def parser_G(self):
        if self._parG is None:
            self._parG = {
                i: nfa.from_ast(a, token_ids=self.tok_ids, rule_ids=self.rule_ids).eps_free()
                for i, (n, a, infos) in enumerate(self.g.parser_rules)
            }
        return self._parG

    def parser_A(self):
        if self._parA is None:
            d = {}
            for ri in range(len(self.patn.ruleToStartState)):
                m, info = nfa.from_atn_rule(self.patn, ri, False)
                d[ri] = m.eps_free()
                self.parser_info[ri] = info
            self._parA = d
        return self._parA

    # ---- concrete tokenisation from one side's NFAs (longest match, earliest rule)
    def tokenize(self, side, text):
        rules = [(n, t, m) for (n, t, m) in (self.lexer_G() if side == "G" else self.lexer_A()) if t is not None]
        cps = [ord(c) for c in text]
        i = 0
        out = []
        while i < len(cps):
            best = (0, None, None)
            for n, t, m in rules:
                ls = m.accepts_lengths(cps[i:])
                ls.discard(0)
                if ls:
                    k = max(ls)
                    if k > best[0]:
                        best = (k, t, n)
            if best[0] == 0:
                out.append((None, text[i]))
                i += 1
                continue
            out.append((best[1], text[i:i + best[0]]))
            i += best[0]
        return out

    def real_tokens(self, text, with_skipped=False):
        """token (type, text) list from the real blackbirdLexer; skipped tokens are not emitted by it"""
        import antlr4
        lx = self.L.blackbirdLexer(antlr4.InputStream(text))
        lx.removeErrorListeners()
        out = []
        while True:
            t = lx.nextToken()
            if t.type == antlr4.Token.EOF:
                break
            out.append((t.type, t.text))
        return out

    def real_tokens_pos(self, text):
        """[(TOKENNAME, text, line, column)] from the real lexer"""
        import antlr4
        lx = self.L.blackbirdLexer(antlr4.InputStream(text))
        lx.removeErrorListeners()
        out = []
        while True:
            t = lx.nextToken()
            if t.type == antlr4.Token.EOF:
                break
            out.append((self.tok_names.get(t.type, "?"), t.text, t.line, t.column))
        return out

    def real_parse_tokens(self, types):
        """accept/reject verdict of the real parser on a token-type sequence (no EOF in types)"""
        import antlr4
        from antlr4.Token import CommonToken
        from antlr4.ListTokenSource import ListTokenSource
        from antlr4.error.ErrorListener import ErrorListener
        toks = []
        for i, ty in enumerate(types):
            t = CommonToken(type=ty)
            t.text = CANON.get(self.tok_names.get(ty, "?"), "?")
            t.line = 1
            t.column = i
            t.tokenIndex = i
            toks.append(t)
        src = ListTokenSource(toks)
        stream = antlr4.CommonTokenStream(src)
        p = self.P.blackbirdParser(stream)
        p.removeErrorListeners()
        errs = []

        class EL(ErrorListener):
            def syntaxError(self, recognizer, offendingSymbol, line, column, msg, e):
                errs.append((offendingSymbol.tokenIndex if offendingSymbol is not None else None, msg))

        p.addErrorListener(EL())
        p.start()
        return (not errs), errs

    def skip_token_types(self):
        return {self.tok_ids[n] for n in self.skip_g}


# canonical lexeme per token kind (used to render token sequences as text)
CANON = {
    "PLUS": "+", "MINUS": "-", "TIMES": "*", "DIVIDE": "/", "PWR": "**", "ASSIGN": "=", "FOR": "for", "IN": "in",
    "INT": "7", "FLOAT": "2.5", "COMPLEX": "3j", "STR": '"s"', "BOOL": "True", "SEQUENCE": "1,2", "PI": "pi",
    "NEWLINE": "\n", "TAB": "\t", "SPACE": " ", "PROGNAME": "name", "VERSION": "version", "TARGET": "target",
    "PROGTYPE": "type", "INCLUDE": "include", "SQRT": "sqrt", "SIN": "sin", "COS": "cos", "TAN": "tan",
    "ARCSIN": "arcsin", "ARCCOS": "arccos", "ARCTAN": "arctan", "SINH": "sinh", "COSH": "cosh", "TANH": "tanh",
    "ARCSINH": "arcsinh", "ARCCOSH": "arccosh", "ARCTANH": "arctanh", "EXP": "exp", "LOG": "log", "PERIOD": ".",
    "COMMA": ",", "COLON": ":", "QUOTE": '"', "LBRAC": "(", "RBRAC": ")", "LSQBRAC": "[", "RSQBRAC": "]",
    "LBRACE": "{", "RBRACE": "}", "APPLY": "|", "TYPE_ARRAY": "array", "TYPE_FLOAT": "float",
    "TYPE_COMPLEX": "complex", "TYPE_INT": "int", "TYPE_STR": "str", "TYPE_BOOL": "bool", "REGREF": "q1",
    "MEASURE": "MeasureX", "NAME": "abc", "DEVICE": "x.y", "COMMENT": "#c", "ANY": "$",
}


def render(lang, types):
    """token types -> text, tokens separated by one space except around NEWLINE/TAB.
    Returns None if the real lexer does not give back exactly these types."""
    parts = []
    for ty in types:
        parts.append(CANON[lang.tok_names[ty]])
    text = ""
    for i, p in enumerate(parts):
        if i > 0 and parts[i - 1] not in ("\n", "\t") and p not in ("\n",):
            text += " "
        text += p
    got = [t for (t, _) in lang.real_tokens(text)]
    if got != list(types):
        return None
    return text
