"""Bounded CFG membership as SMT: 'rule r derives tokens[i:j]' for symbolic tokens.

Input: per-rule eps-free NFAs whose labels are ('sy', set) with token types
(< RULE_BASE, 0 = EOF) and rule references (RULE_BASE + r).  Every definition
refers only to strictly shorter spans, or to a same-span entry along an acyclic
chain (nullable prefixes / unit derivations); a same-span cycle raises
CycleError (the caller reports 'inconclusive').
"""
import sys
import z3
from .nfa import RULE_BASE

sys.setrecursionlimit(100000)


class CycleError(Exception):
    pass


TRUE = z3.BoolVal(True)
FALSE = z3.BoolVal(False)


def _or(xs):
    ys = []
    for x in xs:
        if x is TRUE:
            return TRUE
        if x is FALSE:
            continue
        ys.append(x)
    if not ys:
        return FALSE
    return ys[0] if len(ys) == 1 else z3.Or(ys)


def _and(a, b):
    if a is FALSE or b is FALSE:
        return FALSE
    if a is TRUE:
        return b
    if b is TRUE:
        return a
    return z3.And(a, b)


class CFG:
    def __init__(self, nfas, toks, tag):
        self.nfas = nfas        # rule index -> eps-free NFA
        self.toks = toks
        self.tag = tag
        self.out = {}
        for r, m in nfas.items():
            o = {}
            for s, l, t in m.edges:
                o.setdefault(s, []).append((l, t))
            self.out[r] = o
        self._nullable()
        self.memo = {}
        self.inprog = set()
        self.tokm = {}
        self.ndefs = 0

    def _nullable(self):
        # ynull[(r,s)] : from s, accept reachable through nullable rule edges only
        nullable = set()
        changed = True
        ynull = {}
        while changed:
            changed = False
            for r, m in self.nfas.items():
                # backward reachability from accept along edges whose label has a nullable rule
                good = set(m.accept)
                grew = True
                while grew:
                    grew = False
                    for s, l, t in m.edges:
                        if s not in good and t in good and any(
                                (v - RULE_BASE) in nullable for v in l[1] if v >= RULE_BASE):
                            good.add(s)
                            grew = True
                for s in range(m.n):
                    ynull[(r, s)] = s in good
                if m.start in good and r not in nullable:
                    nullable.add(r)
                    changed = True
        self.nullable = nullable
        self.ynull = ynull

    def tokmatch(self, i, vals):
        key = (i, vals)
        if key not in self.tokm:
            c = self.toks[i]
            self.tokm[key] = z3.Or([c == v for v in sorted(vals)]) if len(vals) > 1 else (c == next(iter(vals)))
        return self.tokm[key]

    def X(self, r, i, j):
        return self.Y(r, self.nfas[r].start, i, j)

    def Y(self, r, s, i, j):
        if i == j:
            return TRUE if self.ynull[(r, s)] else FALSE
        key = (r, s, i, j)
        if key in self.memo:
            return self.memo[key]
        if key in self.inprog:
            raise CycleError("same-span cycle at rule %d state %d" % (r, s))
        self.inprog.add(key)
        alts = []
        for l, t in self.out[r].get(s, ()):
            tv = frozenset(v for v in l[1] if v < RULE_BASE)
            if tv:
                alts.append(_and(self.tokmatch(i, tv), self.Y(r, t, i + 1, j)))
            for v in l[1]:
                if v < RULE_BASE:
                    continue
                q = v - RULE_BASE
                if q in self.nullable:
                    alts.append(self.Y(r, t, i, j))
                for k in range(i + 1, j):
                    rest = self.Y(r, t, k, j)
                    if rest is FALSE:
                        continue
                    alts.append(_and(self.X(q, i, k), rest))
                if self.ynull[(r, t)]:
                    alts.append(self.X(q, i, j))
        res = _or(alts)
        self.inprog.discard(key)
        self.memo[key] = res
        self.ndefs += 1
        return res


def concrete_derives(nfas, r, seq):
    """concrete evaluation of the same recurrences on a concrete token sequence
    (encoder validation / replay): the CFG class is run with Python booleans."""
    c = _Concrete(nfas, list(seq))
    return c.X(r, 0, len(seq))


class _Concrete(CFG):
    def __init__(self, nfas, seq):
        self.seq = seq
        CFG.__init__(self, nfas, seq, "c")

    def Y(self, r, s, i, j):
        if i == j:
            return self.ynull[(r, s)]
        key = (r, s, i, j)
        if key in self.memo:
            return self.memo[key]
        if key in self.inprog:
            raise CycleError("same-span cycle")
        self.inprog.add(key)
        res = False
        for l, t in self.out[r].get(s, ()):
            if self.seq[i] in l[1] and self.seq[i] < RULE_BASE and self.Y(r, t, i + 1, j):
                res = True
                break
            for v in l[1]:
                if v < RULE_BASE:
                    continue
                q = v - RULE_BASE
                if q in self.nullable and self.Y(r, t, i, j):
                    res = True
                    break
                if any(self.Y(r, t, k, j) and self.X(q, i, k) for k in range(i + 1, j)):
                    res = True
                    break
                if self.ynull[(r, t)] and self.X(q, i, j):
                    res = True
                    break
            if res:
                break
        self.inprog.discard(key)
        self.memo[key] = res
        return res


def first_offending_index(nfas, root, seq):
    """Earley-style recognition over the per-rule NFAs: the smallest k such that seq[:k+1] is not a prefix of any sentence
    derivable from `root` (None if the whole sequence is a viable prefix).  seq are token types; EOF (0) is an ordinary token."""
    out = {}
    for r, m in nfas.items():
        o = {}
        for a, l, b in m.edges:
            for v in l[1]:
                o.setdefault(a, []).append((v, b))
        out[r] = o
    nullable = CFG(nfas, [], "n").nullable

    def closure(items, k, chart):
        """items: set of (rule, state, origin); predict + complete"""
        work = list(items)
        seen = set(items)
        while work:
            (r, s_, o) = work.pop()
            for v, b in out[r].get(s_, ()):
                if v >= RULE_BASE:
                    q = v - RULE_BASE
                    it = (q, nfas[q].start, k)
                    if it not in seen:
                        seen.add(it)
                        work.append(it)
                    if q in nullable:
                        it2 = (r, b, o)
                        if it2 not in seen:
                            seen.add(it2)
                            work.append(it2)
            if s_ in nfas[r].accept:
                # complete: advance every item in chart[o] waiting for rule r
                src = chart[o] if o < k else seen
                for (r2, s2, o2) in list(src):
                    for v, b in out[r2].get(s2, ()):
                        if v == RULE_BASE + r:
                            it = (r2, b, o2)
                            if it not in seen:
                                seen.add(it)
                                work.append(it)
        return seen

    chart = []
    cur = closure({(root, nfas[root].start, 0)}, 0, chart)
    chart.append(cur)
    for k, tok in enumerate(seq):
        nxt = set()
        for (r, s_, o) in cur:
            for v, b in out[r].get(s_, ()):
                if v < RULE_BASE and v == tok:
                    nxt.add((r, b, o))
        if not nxt:
            return k
        cur = closure(nxt, k + 1, chart)
        chart.append(cur)
    return None
